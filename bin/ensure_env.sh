#!/bin/bash
# Build the /verif/.venv overlay offline (idempotent). mici itself is an editable
# install in /venv pointing at /repo/src, so the overlay imports the live tree.
set -e
V=/verif/.venv
if [ -x "$V/bin/python" ] && "$V/bin/python" -c "import z3, numpy, scipy, mici" >/dev/null 2>&1; then
  exit 0
fi
rm -rf "$V"
/venv/bin/python -m venv "$V"
SP=$("$V/bin/python" -c "import sysconfig; print(sysconfig.get_paths()['purelib'])")
echo "import site; site.addsitedir('/venv/lib/python3.12/site-packages')" > "$SP/_overlay.pth"
PIP_NO_INDEX=1 "$V/bin/pip" install -q --no-index --find-links /opt/veriftools/wheels z3-solver >/dev/null
"$V/bin/python" -c "import z3, numpy, scipy, mici; print('env ok', z3.get_version_string(), numpy.__version__, mici.__file__)"
