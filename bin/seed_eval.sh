#!/bin/bash
# bin/seed_eval.sh <seed-id e.g. C10c> <worktree with the change applied> [check ids...]
# Confirms a seeded change (demo fails with / passes without, package imports) and runs the property's quick check
# against the worktree (SYMX_MICI_SRC) - /repo is not touched.  Logs in /tmp/seed_ev.
sid=$1; wt=$2; shift 2
prop=${sid:0:3}
checks=${@:-$prop}
mkdir -p /tmp/seed_ev
cd "$wt" || exit 2
export PYTHONDONTWRITEBYTECODE=1
PYTHONPATH=$wt/src /venv/bin/python -c "import mici, mici.samplers, mici.systems, mici.integrators, mici.matrices, mici.adapters" || { echo "seed $sid import FAILED"; exit 2; }
PYTHONPATH=$wt/src timeout 900 /venv/bin/python demo.py > /tmp/seed_ev/$sid.demo_with.log 2>&1; w=$?
# (no git stash: the stash is shared between worktrees)
git diff -- src > /tmp/seed_ev/$sid.cur.diff; git apply -R /tmp/seed_ev/$sid.cur.diff; PYTHONPATH=$wt/src timeout 900 /venv/bin/python demo.py > /tmp/seed_ev/$sid.demo_without.log 2>&1; wo=$?; git apply /tmp/seed_ev/$sid.cur.diff
echo "seed $sid demo with=$w without=$wo" | tee -a /tmp/seed_ev/summary.txt
for c in $checks; do
  ( cd /verif; SYMX_MICI_SRC=$wt/src SYMX_EVIDENCE_DIR=/tmp/seed_ev/ev_$sid timeout 3000 ./bin/check $c --tier quick > /tmp/seed_ev/$sid.$c.log 2>&1; e=$?
    echo "seed $sid check $c exit=$e" | tee -a /tmp/seed_ev/summary.txt; grep -E "^(VIOLATION|KNOWN-FINDING|INCONCLUSIVE)" /tmp/seed_ev/$sid.$c.log | head -5 )
done
