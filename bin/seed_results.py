#!/usr/bin/env python3
"""Builds /verif/seeded/RESULTS.md from the seed evaluation logs (/tmp/seed_ev) and each seed's meta.json."""
import json, os, re, glob
rows = []
summ = {}
for line in open("/tmp/seed_ev/summary.txt"):
    m = re.match(r"seed (\S+) check (\S+) exit=(\d+)", line.strip())
    if m:
        summ[(m.group(1), m.group(2))] = int(m.group(3))  # last run wins
out = ["# Seeded changes (independent sub-agents) and which check catches them", "",
       "Each seed was confirmed in a scratch worktree: `demo.py` exits 1 with `patch.diff` applied and 0 without; the agents report the whole",
       "test suite passing with the change.  The checks were run against a scratch worktree with the patch applied (`SYMX_MICI_SRC`),",
       "exit 1 = VIOLATION reported (caught), exit 0 = missed, exit 3 = inconclusive.", "",
       "| seed | property broken | what it does / needs | check run -> exit | caught by |", "|---|---|---|---|---|"]
for d in sorted(glob.glob("/verif/seeded/C*/")):
    sid = os.path.basename(d.rstrip("/"))
    try:
        meta = json.load(open(d + "meta.json"))
    except Exception:
        meta = {}
    runs = {k[1]: v for k, v in summ.items() if k[0] == sid}
    caught = [c for c, e in runs.items() if e == 1]
    what = (meta.get("summary", "")[:220] + " | needs: " + meta.get("needs", "")[:160]).replace("|", "/").replace("\n", " ")
    out.append(f"| {sid} | {meta.get('property', sid)} | {what} | {', '.join(f'{c}->{e}' for c, e in sorted(runs.items()))} | {', '.join(caught) or 'MISSED'} |")
    # record in the seed's meta what was run
    meta["checks_run"] = {c: {1: "VIOLATION (caught)", 0: "passed (missed)", 3: "inconclusive"}.get(e, str(e)) for c, e in runs.items()}
    json.dump(meta, open(d + "meta.json", "w"), indent=1)
open("/verif/seeded/RESULTS.md", "w").write("\n".join(out) + "\n")
print("\n".join(out[-25:]))
