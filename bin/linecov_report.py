#!/usr/bin/env python3
"""Development aid: merges the per-case line records written with SYMX_LINECOV=<dir> and lists, per function of
src/mici, the executable lines that no check executed.  usage: linecov_report.py <dir> [src-dir]"""
import ast, glob, json, os, sys
d = sys.argv[1]
src = sys.argv[2] if len(sys.argv) > 2 else "/repo/src/mici"
hit = {}
for f in glob.glob(os.path.join(d, "*.json")):
    for fn, lines in json.load(open(f)).items():
        hit.setdefault(os.path.basename(fn), set()).update(lines)
for mod in ("states", "utils", "solvers", "integrators", "systems", "matrices", "transitions", "samplers", "stagers", "adapters"):
    path = os.path.join(src, mod + ".py")
    tree = ast.parse(open(path).read())
    h = hit.get(mod + ".py", set())
    print(f"== {mod}: {len(h)} lines hit")
    def visit(node, prefix):
        for ch in ast.iter_child_nodes(node):
            if isinstance(ch, ast.ClassDef):
                visit(ch, prefix + ch.name + ".")
            elif isinstance(ch, (ast.FunctionDef, ast.AsyncFunctionDef)):
                lines = set()
                for n in ast.walk(ch):
                    if isinstance(n, ast.stmt) and n is not ch and not (isinstance(n, ast.Expr) and isinstance(n.value, ast.Constant)):
                        lines.add(n.lineno)
                miss = sorted(lines - h)
                if miss and lines:
                    tag = "NEVER" if len(miss) == len(lines) else "part"
                    print(f"  {tag} {prefix}{ch.name} ({len(miss)}/{len(lines)}): {miss[:25]}")
                visit(ch, prefix + ch.name + ".")
    visit(tree, "")
