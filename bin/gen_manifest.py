#!/usr/bin/env python3
"""Regenerates MANIFEST.json from the harness modules that exist (claimed) and the fixed property list."""
import json, os, sys, importlib.util, re
ROOT = os.path.dirname(os.path.dirname(os.path.abspath(__file__)))
props = [json.loads(l) for l in open(os.path.join(ROOT, "properties.jsonl"))]
CLAIMED = json.load(open(os.path.join(ROOT, "bin", "claimed.json")))
checks, na = [], []
for p in props:
    pid = p["id"]
    c = CLAIMED.get(pid)
    if c and c.get("claimed"):
        checks.append({
            "property_id": pid,
            "quick_cmd": f"./bin/check {pid} --tier quick",
            "thorough_cmd": f"./bin/check {pid} --tier thorough",
            "evidence_file": f"/verif/evidence/{pid}.json",
            "replay_cmd_template": f"./bin/check {pid} --replay {{path}}",
            "engine": "symx",
            "level_claimed": {"category": c.get("level", "model_checking"), "text": c["text"], "design_ref": c.get("design_ref", f"DESIGN.md section 3, {pid}")},
            "level_note": c["note"],
            "technique": c["technique"],
        })
    else:
        na.append({"property_id": pid, "reason": (c or {}).get("reason", "harness not built yet (work in progress)")})
man = {
    "version": 1,
    "setup_cmd": "bash /verif/bin/ensure_env.sh",
    "hooks": {"guard": "MICI_VERIF", "enable": "no source hooks are needed: the checks import /repo/src live through the editable install and replace "
              "module globals / constructor arguments in-process; MICI_VERIF=1 is exported by the runner for completeness",
              "baseline_off_cmd": "cd /repo && /venv/bin/python -m pytest -ra -q -p no:cacheprovider --timeout=900 --continue-on-collection-errors",
              "source_commits": [], "add_only": True},
    "engines": [{"name": "symx", "path": "/verif/symx", "serves_properties": [c["property_id"] for c in checks],
                 "kind_free_text": "symbolic executor of the real Python code (operator overloading over numpy object arrays; value domains: z3 reals, "
                 "dual numbers, truncated power series, positive-weight rational functions, error-carrying values; re-execution DFS path explorer) "
                 "+ z3 SMT queries with a rational-function normal-form front end; counterexamples replayed on the unstubbed code; canary mutants"}],
    "checks": checks,
    "notes": "Every check: exit 0 all obligations discharged (known findings printed), exit 1 reproduced violation (VIOLATION line), exit 3 inconclusive "
             "(solver unknown/timeouts/harness error/non-reproducing model). Fixed defects are listed in KNOWN_FINDINGS.txt as 'fixed:' lines.",
    "not_applicable": na,
}
json.dump(man, open(os.path.join(ROOT, "MANIFEST.json"), "w"), indent=1)
print("claimed", [c["property_id"] for c in checks])
