"""Shared by C13-C15: the real sample_chains / _sample_chain / _sample_chains_parallel / _sample_chains_worker run under
an in-process MODEL of multiprocessing (every argument and result crosses a real pickle round trip; FIFO queues; which worker
takes which chain is a schedule function) with token transitions whose states identify exactly which draw produced them."""
from __future__ import annotations

import pickle
import queue as pyqueue
from contextlib import contextmanager

import numpy as np

import mici.samplers as SA
from mici.transitions import Transition
from mici.states import ChainState
from mici.stagers import WarmUpStager, WindowedWarmUpStager
from mici.adapters import Adapter

LOG = []          # ("draw", chain, k) / ("adapt", ...) events of the current run (workers run in-process)
INTERRUPT = {"at": None, "count": 0, "site": "transition"}


class TokStream:
    """Random generator model: yields tokens (chain, k); per-chain streams via bit_generator.jumped(i)."""

    def __init__(self, chain=None, k=0):
        self.chain, self.k = chain, k

    def draw(self):
        t = (self.chain, self.k)
        self.k += 1
        return t

    @property
    def bit_generator(self):
        return self

    def jumped(self, i):
        return TokStream(chain=i, k=0)

    # numpy bit generators expose their position as a settable ``state``
    @property
    def state(self):
        return {"chain": self.chain, "k": self.k}

    @state.setter
    def state(self, value):
        self.chain, self.k = value["chain"], value["k"]

    def standard_normal(self, size=None):
        return np.zeros(size)


def _maybe_interrupt(site):
    if INTERRUPT["at"] is not None and INTERRUPT["site"] == site:
        INTERRUPT["count"] += 1
        if INTERRUPT["count"] == INTERRUPT["at"]:
            raise KeyboardInterrupt()


class TokTransition(Transition):
    state_variables = {"pos"}

    @property
    def statistic_types(self):
        return {"tok": (np.float64, np.nan), "flag": (bool, False), "cnt": (np.int64, -1)}

    def sample(self, state, rng):
        _maybe_interrupt("transition")
        c, k = rng.draw()
        val = 1000.0 * (c + 1) + k
        state.pos = np.array([val])
        LOG.append(("draw", c, k))
        return state, {"tok": float(val), "flag": True, "cnt": int(k)}


class EchoTransition(Transition):
    """Second transition of a composed sampler: leaves the state alone and reports statistics under the SAME keys as
    TokTransition with different values (per-transition statistics must not be mixed up, in memory or in memory-mapped files)."""
    state_variables = set()

    @property
    def statistic_types(self):
        return {"tok": (np.float64, np.nan), "flag": (bool, False), "cnt": (np.int64, -1)}

    def sample(self, state, rng):
        return state, {"tok": -float(state.pos[0]), "flag": True, "cnt": 7}


class CountAdapter(Adapter):
    is_fast = True

    def initialize(self, chain_state, transition):
        LOG.append(("init",))
        return {"n": 0}

    def update(self, adapt_state, chain_state, trans_stats, transition):
        _maybe_interrupt("adapter")
        adapt_state["n"] += 1

    def finalize(self, adapt_states, chain_states, transition, rngs):
        LOG.append(("finalize",))


class SlowAdapter(CountAdapter):
    is_fast = False


def trace(state):
    _maybe_interrupt("trace")
    return {"pos": state.pos, "twice": 2 * state.pos}


# ---------------------------------------------------------------- multiprocessing model
class ModelQueue:
    def __init__(self):
        self.items = []

    def put(self, x):
        self.items.append(pickle.dumps(x))

    def get(self, block=True):
        if getattr(self, "is_iter", False):
            _maybe_interrupt("parent")  # Ctrl-C delivered to the parent process while it waits for progress messages
        if not self.items:
            raise pyqueue.Empty
        return pickle.loads(self.items.pop(0))

    def empty(self):
        return not self.items


class ModelManager:
    def Queue(self):
        return ModelQueue()


@contextmanager
def manager_model():
    yield ModelManager()


class ModelAsyncResult:
    def __init__(self, vals):
        self.vals = vals

    def get(self):
        return self.vals


class ModelPool:
    assignment = None  # function chain_index -> worker index
    order = None  # function list_of_worker_indices -> order in which workers run

    def __init__(self, n):
        self.n = n

    def starmap_async(self, func, arglist):
        arglist = list(arglist)
        chain_queue = arglist[0][0]
        arglist[0][1].is_iter = True
        items = [pickle.loads(b) for b in chain_queue.items]
        chain_queue.items = []
        outs = [None] * len(arglist)
        workers = list(range(len(arglist)))
        if ModelPool.order is not None:
            workers = ModelPool.order(workers)
        for p in workers:
            cq, iq, kw = arglist[p]
            view = ModelQueue()
            for it in items:
                if ModelPool.assignment(it[0]) % len(arglist) == p:
                    view.put(it)
            kw = pickle.loads(pickle.dumps(kw))
            res = func(view, iq, kw)
            outs[p] = pickle.loads(pickle.dumps(res))
        return ModelAsyncResult(outs)


@contextmanager
def pool_model(n):
    yield ModelPool(n)


def install_model():
    SA._ignore_sigint_manager = manager_model
    SA._pool_context_manager = pool_model
    SA.default_rng = lambda x: x


def run(n_warm, n_main, n_chain=2, n_process=1, assignment=None, order=None, trace_warm_up=False, stager="warmup",
        adapters="fast", force_memmap=False, init="dict", interrupt=None, trace_funcs=True, n_pool_cap=None, two_transitions=False):
    """One run of the real sample_chains under the model.  Returns dict of plain-Python outputs + the event log."""
    install_model()
    LOG.clear()
    INTERRUPT.update({"at": None, "count": 0, "site": "transition"})
    if interrupt is not None:
        # (the trace function is called once by _init_traces, before sampling starts, to size the arrays: not an iteration)
        INTERRUPT.update({"at": interrupt[1] + (1 if interrupt[0] == "trace" else 0), "count": 0, "site": interrupt[0]})
    ModelPool.assignment = assignment or (lambda c: c)
    ModelPool.order = order
    if n_process is None and n_pool_cap:
        import os
        os.cpu_count_orig = os.cpu_count
    sampler = SA.MarkovChainMonteCarloMethod(TokStream(), {"t": TokTransition(), "u": EchoTransition()} if two_transitions else {"t": TokTransition()})
    ads = {"none": None, "fast": {"t": [CountAdapter()]}, "slow": {"t": [CountAdapter(), SlowAdapter()]}}[adapters]
    stg = {"warmup": WarmUpStager(), "windowed": WindowedWarmUpStager(), "default": None,
           # small windows: many recorded stages already for a handful of warm-up iterations
           "windowed111": WindowedWarmUpStager(1, 1, 1)}[stager]
    if init == "dict":
        inits = [{"pos": np.array([-1.0 - c])} for c in range(n_chain)]
    else:
        inits = [ChainState(pos=np.array([-1.0 - c])) for c in range(n_chain)]
    out = sampler.sample_chains(n_warm, n_main, inits, trace_funcs=[trace] if trace_funcs else None, adapters=ads, stager=stg,
                                n_process=n_process, trace_warm_up=trace_warm_up, display_progress=False, force_memmap=force_memmap)
    res = {
        "traces": None if out.traces is None else {k: [([] if len(t) == 0 else np.array(t).reshape(len(t), -1)[:, 0].tolist()) for t in v]
                                                    for k, v in out.traces.items()},
        "stats": {k: [np.array(s).tolist() for s in v] for k, v in out.statistics["t"].items()},
        "stats_u": {k: [np.array(s).tolist() for s in v] for k, v in out.statistics["u"].items()} if two_transitions else None,
        "final": [float(s.pos[0]) for s in out.final_states],
        "log": list(LOG),
        "memmap": [type(t).__name__ for t in (out.traces or {}).get("pos", [])],
    }
    INTERRUPT["at"] = None
    return res


def expected_rows(log, n_chain, n_warm, n_main, trace_warm_up):
    """Per chain: tokens of the states after each recorded iteration, from the event log (ground truth of what was sampled)."""
    per = {c: [] for c in range(n_chain)}
    for e in log:
        if e[0] == "draw":
            per[e[1]].append(1000.0 * (e[1] + 1) + e[2])
    rows = {}
    for c in range(n_chain):
        seq = per[c]
        rows[c] = seq if trace_warm_up else seq[n_warm:]
    return rows, per


def make_rng(kind, seed):
    """Generators of the supported kinds whose stream is a deterministic function of ``seed`` (some of them carry a state that
    does not come from their own seed sequence: jumped copies get a fresh OS-entropy SeedSequence, a restored state none)."""
    R = np.random
    if kind == "pcg64":
        return R.default_rng(seed)
    if kind == "pcg64_jumped":
        return R.Generator(R.PCG64(seed).jumped(3))
    if kind == "mt19937_jumped":
        return R.Generator(R.MT19937(seed).jumped(2))
    if kind == "philox_jumped":
        return R.Generator(R.Philox(seed).jumped(1))
    if kind == "sfc64":
        return R.Generator(R.SFC64(seed))
    if kind == "pcg64_state_restored":
        g = R.Generator(R.PCG64())
        g.bit_generator.state = R.PCG64(seed).state
        return g
    if kind == "legacy_randomstate":
        return R.RandomState(seed % (2 ** 32))
    raise KeyError(kind)


def run_real(n_warm, n_main, inits, n_process=1, assignment=None, order=None, seed=20240601, stager="default", rng_kind="pcg64"):
    """The real sampler with the REAL numpy Generator, real Hamiltonian transition, real step-size and metric adapters (floats),
    under the same multiprocessing model: returns the traced positions / accept statistics / final states / adapted parameters."""
    import mici.systems as S
    import mici.integrators as IN
    import mici.transitions as T
    import mici.adapters as AD
    install_model()
    SA.default_rng = np.random.default_rng  # (the token stream needs the identity here; the real generator the real function)
    ModelPool.assignment = assignment or (lambda c: c)
    ModelPool.order = order
    system = S.EuclideanMetricSystem(_nld, grad_neg_log_dens=_grad)
    integ = IN.LeapfrogIntegrator(system)
    sampler = SA.StaticMetropolisHMC(system, integ, make_rng(rng_kind, seed), n_step=2)
    ads = [AD.DualAveragingStepSizeAdapter(), AD.OnlineVarianceMetricAdapter()]
    stg = {"default": None, "windowed111": WindowedWarmUpStager(1, 1, 1)}[stager]
    out = sampler.sample_chains(n_warm, n_main, [np.array([float(x)]) for x in inits], trace_funcs=[_trace_real], adapters=ads, stager=stg,
                                n_process=n_process, trace_warm_up=True, display_progress=False)
    install_model()
    return {"pos": [np.asarray(t).ravel().tolist() for t in out.traces["pos"]],
            "accept": [np.asarray(a).tolist() for a in out.statistics["accept_stat"]],
            "final": [float(s.pos[0]) for s in out.final_states]}


def _nld(q):
    return 0.5 * float(q @ q)


def _grad(q):
    return q


def _trace_real(state):
    return {"pos": state.pos}
