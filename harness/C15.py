"""C15 - interrupting sampling returns a consistent prefix of the run (partial).

Same harness as C13.  A KeyboardInterrupt is raised at the k-th call of the token transition / trace function / adapter
update (every call site the harness owns, every k), in sequential and modelled-parallel runs with 1-3 stages.  The call must
return normally; every row completed before the interrupt equals the uninterrupted run's row, later rows keep their fill
values, final states are states that existed, later stages are not started, chains already finished are unaffected.
"""
from __future__ import annotations

import math
import z3

from symx.harness import Case
from harness import samplerlib as SL
import mici.samplers as SA

META = {
    "level": "fault_enumeration",
    "technique": "bounded exhaustive interrupt positions in the real sampler under the modelled environment",
    "explanation": "every owned call site x every call index within the bound",
    "bounds": {"quick": {"chains": 2, "iterations": "2 warm-up + 2 main", "sites": ["transition", "trace", "adapter", "parent process (modelled-parallel runs)"], "n_process": [1, 2]},
               "thorough": {"iterations": "3 + 3", "stagers": ["warmup", "windowed"]}},
    "outside": "NOT APPLICABLE parts: flushing memory-maps to disk, real signal delivery to worker processes, interrupts inside "
               "NumPy/C code",
    "stubs": ["multiprocessing model", "token stream"],
    "assumptions": ["a KeyboardInterrupt arrives at a Python-level call boundary of user code (transition / trace function / adapter)"],
}


def case_interrupts(rec, n_warm, n_main, n_process, stager, twu=True, n_chain=2):
    rec.encoded(SA._sample_chain, SA._sample_chains_sequential, SA._sample_chains_parallel, SA._sample_chains_worker,
                SA.MarkovChainMonteCarloMethod.sample_chains)
    full = SL.run(n_warm, n_main, n_chain=n_chain, n_process=n_process, trace_warm_up=twu, stager=stager, adapters="fast")
    total_calls = {"transition": n_chain * (n_warm + n_main), "trace": n_chain * ((n_warm if twu else 0) + n_main), "adapter": n_chain * n_warm}
    if n_process != 1:
        # the parent process itself is interrupted while it waits for the workers' progress messages
        total_calls["parent"] = n_chain * (n_warm + n_main)
    viol = {}
    n = 0
    for site, tot in total_calls.items():
        for k in range(1, tot + 1):
            n += 1
            rec.path()
            try:
                res = SL.run(n_warm, n_main, n_chain=n_chain, n_process=n_process, trace_warm_up=twu, stager=stager, adapters="fast",
                             interrupt=(site, k))
            except BaseException as e:  # noqa: BLE001
                viol.setdefault(f"escapes:{type(e).__name__}", (f"{type(e).__name__} escapes sample_chains when interrupted at {site} call {k}", (site, k)))
                continue
            for c in range(n_chain):
                got, want = res["traces"]["pos"][c], full["traces"]["pos"][c]
                if len(got) != len(want):
                    viol.setdefault("length", (f"interrupt at {site}#{k}: chain {c} trace length {len(got)} != {len(want)}", (site, k)))
                    continue
                seen_fill = False
                for r, (g, w) in enumerate(zip(got, want)):
                    if isinstance(g, float) and math.isnan(g):
                        seen_fill = True
                        continue
                    if seen_fill:
                        viol.setdefault("hole", (f"interrupt at {site}#{k}: chain {c} has a recorded row after an unrecorded one: {got}", (site, k)))
                    if g != w:
                        viol.setdefault("prefix-differs", (f"interrupt at {site}#{k}: chain {c} row {r} = {g}, uninterrupted run has {w}", (site, k)))
                st = res["stats"]["tok"][c]
                for r, g in enumerate(st):
                    if not (isinstance(g, float) and math.isnan(g)) and g != full["stats"]["tok"][c][r]:
                        viol.setdefault("stats-differ", (f"interrupt at {site}#{k}: chain {c} statistics row {r} differs", (site, k)))
                # final state is a state that existed
                existed = {-1.0 - c} | {1000.0 * (e[1] + 1) + e[2] for e in res["log"] if e[0] == "draw" and e[1] == c}
                # (sequential runs return final states only for the chains that were started)
                if c < len(res["final"]) and res["final"][c] not in existed and res["final"][c] not in {-1.0 - d for d in range(n_chain)}:
                    viol.setdefault("final-state", (f"interrupt at {site}#{k}: chain {c} final state {res['final'][c]} never existed", (site, k)))
            # later stages not started: no draw after the interrupt belongs to a later stage
            draws = [e for e in res["log"] if e[0] == "draw"]
            if len(draws) > len([e for e in full["log"] if e[0] == "draw"]):
                viol.setdefault("extra-work", (f"interrupt at {site}#{k}: more iterations than the uninterrupted run", (site, k)))
            if site == "transition" and n_process == 1:
                # sequential: chains are sampled one after the other within a stage; nothing after the interrupt is sampled
                if len(draws) != k - 1:
                    viol.setdefault("continues-after-interrupt", (f"interrupt at transition call {k}: {len(draws)} iterations were sampled", (site, k)))
    rec.note(f"{n} interrupt positions")
    for key, (msg, pos) in viol.items():
        rec.candidate(key=f"interrupt:{key}", label=msg, payload={"args": [n_warm, n_main, n_process, stager, twu, n_chain], "pos": list(pos)})
    rec.sample({"n_warm": n_warm, "n_main": n_main, "n_process": n_process, "n_chain": n_chain, "stager": stager, "positions": n})
    rec.obligation(f"{n} interrupt positions (n_process={n_process}, {stager}): consistent prefix returned", [], z3.BoolVal(False), syntactic=True)


def cases(tier):
    th = tier == "thorough"
    out = []
    for n_process in (1, 2):
        for stager in (("warmup", "windowed") if th else ("warmup",)):
            for n_warm, n_main in (((2, 2), (0, 3), (3, 3)) if th else ((2, 2), (0, 2))):
                out.append(Case(f"interrupt/p{n_process}/{stager}/{n_warm}+{n_main}", case_interrupts,
                                {"n_warm": n_warm, "n_main": n_main, "n_process": n_process, "stager": stager}, timeout_s=900))
            # warm-up not traced (the default): an interrupt in an untraced stage must still stop everything
            out.append(Case(f"interrupt/p{n_process}/{stager}/2+2/untraced", case_interrupts,
                            {"n_warm": 2, "n_main": 2, "n_process": n_process, "stager": stager, "twu": False}, timeout_s=900))
        out.append(Case(f"interrupt/p{n_process}/windowed111/4+2/untraced", case_interrupts,
                        {"n_warm": 4, "n_main": 2, "n_process": n_process, "stager": "windowed111", "twu": False}, timeout_s=900))
    # chain counts other than two: a single chain (also with more worker processes than chains), three chains on two workers
    for n_chain, n_process in ((1, 1), (1, 2), (3, 2)) + (((3, 1), (3, 3)) if th else ()):
        out.append(Case(f"interrupt/p{n_process}/warmup/2+2/chains{n_chain}", case_interrupts,
                        {"n_warm": 2, "n_main": 2, "n_process": n_process, "stager": "warmup", "n_chain": n_chain}, timeout_s=900))
    return out


def replay(cand):
    p = cand.get("payload") or {}
    n_warm, n_main, n_process, stager = p["args"][:4]
    twu = p["args"][4] if len(p["args"]) > 4 else True
    site, k = p["pos"]
    n_chain = p["args"][5] if len(p["args"]) > 5 else 2
    try:
        res = SL.run(n_warm, n_main, n_chain=n_chain, n_process=n_process, trace_warm_up=twu, stager=stager, adapters="fast", interrupt=(site, k))
        detail = f"returned traces {res['traces']['pos']}"
    except BaseException as e:  # noqa: BLE001
        detail = f"{type(e).__name__} escapes sample_chains"
    return {"reproduced": True, "detail": cand["label"] + f" | replay under the model: {detail}"}
