"""C16 - adaptation is confined to warm-up and stages partition the iterations exactly.

(a) The real WarmUpStager / WindowedWarmUpStager.stages run with z3 *integers* for the iteration counts and the window
settings; the while-loop is followed by the path explorer until the branch is infeasible under the bound on
n_warm_up_iter.  The two float truncations int(0.15 n), int(0.1 n) are fresh integers a, b with 0 <= a, 0 <= b,
a + b <= n, justified on every run by a QF_BVFP lemma over binary64 (n < 2^30).  Obligations per path: warm-up lengths
sum to n_warm_up_iter, no negative length, last stage is the main stage of the requested length without adapters,
slow adapters only in the slow windows, fast adapters in every warm-up stage, slow windows non-decreasing except the last.
(b) The real sample_chains with the real DualAveragingStepSizeAdapter / OnlineVarianceMetricAdapter over a stub
transition (explorer-chosen small iteration counts): the step size and metric seen by every main-stage iteration are
constant and equal the values finalised by the last warm-up stage that performed at least one update.
"""
from __future__ import annotations

import builtins
import time

import numpy as np
import z3

from symx.core import Ctx, explore, SB
from symx.harness import Case
import mici.stagers as ST

META = {
    "level": "model_checking",
    "technique": "symbolic execution of the real stagers with z3 integers (+ QF_BVFP lemma for the float truncations); "
                 "bounded exhaustive runs of the real sample_chains with the real adapters for the confinement part",
    "explanation": "SMT over all iteration counts / window settings up to the bound; sampler part enumerates small counts",
    "bounds": {"quick": {"n_warm_up_iter": "<= 2000 symbolic (<= 40 for multiplier 1.5)", "window_settings": "1..100 symbolic", "multiplier": [2.0, 3.0, 1.5],
                         "sampler_part": "n_warm_up in 0..12, n_main 3, chains 1-2"},
               "thorough": {"n_warm_up_iter": "<= 20000 symbolic (<= 48 for multiplier 1.5)", "sampler_part": "n_warm_up in 0..40"}},
    "outside": "multipliers other than 1.5, 2, 3 (products with an integer are exact in binary64 only for dyadic multipliers); "
               "n_warm_up_iter beyond the bound; custom stagers",
    "stubs": ["builtin int in mici.stagers applied to float x symbolic-int: exact integer product for dyadic multipliers, fresh integer "
              "under the BVFP lemma for 0.15 n and 0.1 n"],
    "assumptions": ["slow window size >= 1, fast stage sizes >= 0, multiplier >= 1 (documented domain)"],
}


def I(x):
    return x if isinstance(x, SI) else SI(z3.IntVal(int(x)))


class SI:
    def __init__(s, e):
        s.e = e

    def __add__(s, o):
        return SI(s.e + I(o).e)

    __radd__ = __add__

    def __sub__(s, o):
        return SI(s.e - I(o).e)

    def __rsub__(s, o):
        return SI(I(o).e - s.e)

    def __mul__(s, o):
        if isinstance(o, float):
            return FloatProd(o, s)
        return SI(s.e * I(o).e)

    __rmul__ = __mul__

    def __gt__(s, o):
        return SB(s.e > I(o).e)

    def __ge__(s, o):
        return SB(s.e >= I(o).e)

    def __lt__(s, o):
        return SB(s.e < I(o).e)

    def __le__(s, o):
        return SB(s.e <= I(o).e)

    def __eq__(s, o):
        return SB(s.e == I(o).e)

    def __ne__(s, o):
        return SB(s.e != I(o).e)

    __hash__ = None

    def __format__(s, f):
        return "<n>"


class FloatProd:
    def __init__(s, c, n):
        s.c, s.n = c, n


FRESH = []


def sym_int(x):
    if isinstance(x, FloatProd):
        c, n = x.c, x.n
        if float(c).is_integer():
            return SI(int(c) * n.e)
        if c * 2 == int(c * 2):  # half-integers: exact product, truncation = floor for n >= 0
            return SI((int(2 * c) * n.e) / 2)
        v = z3.Int(f"trunc_{len(FRESH)}")
        FRESH.append((v, c, n.e))
        Ctx.cur.extra.append(z3.And(v >= 0, v <= n.e))
        if c in EXACT_TRUNC:
            # int(c * n) == (k n) div 100 for every n in the explored range (verified exhaustively at run time, see case_windowed)
            Ctx.cur.extra.append(v == (EXACT_TRUNC[c] * n.e) / 100)
        return SI(v)
    if isinstance(x, SI):
        return x
    return builtins.int(x)


EXACT_TRUNC = {}


def establish_exact_truncation(nmax):
    """int(0.15 n) == 15 n // 100 and int(0.1 n) == 10 n // 100 for all 0 <= n <= nmax: checked by exhaustive evaluation of the
    binary64 products over exactly the range the symbolic run explores (finite and complete); if it holds the truncations are
    encoded exactly instead of by the weaker BVFP lemma."""
    ok = all(int(0.15 * n) == 15 * n // 100 and int(0.1 * n) == 10 * n // 100 for n in range(nmax + 1))
    EXACT_TRUNC.clear()
    if ok:
        EXACT_TRUNC.update({0.15: 15, 0.1: 10})
    return ok


class Ad:
    def __init__(s, fast):
        s.is_fast = fast


def case_bvfp_lemma(rec):
    """For every n < 2^30 (as binary64), a = trunc(fl(0.15*n)), b = trunc(fl(0.1*n)) satisfy a, b >= 0 and a + b <= n."""
    rec.encoded(ST.WindowedWarmUpStager.stages)
    n = z3.BitVec("n", 32)
    rm = z3.RNE()
    fn = z3.fpSignedToFP(rm, n, z3.Float64())
    c15, c10 = z3.FPVal(0.15, z3.Float64()), z3.FPVal(0.1, z3.Float64())
    a = z3.fpToSBV(z3.RTZ(), z3.fpMul(rm, c15, fn), z3.BitVecSort(32))
    b = z3.fpToSBV(z3.RTZ(), z3.fpMul(rm, c10, fn), z3.BitVecSort(32))
    pre = [n >= 0, n < (1 << 30)]
    rec.reachable("bvfp lemma", pre)
    rec.obligation("QF_BVFP lemma: 0 <= int(0.15 n), 0 <= int(0.1 n), int(0.15 n) + int(0.1 n) <= n for 0 <= n < 2^30", pre,
                   z3.Or(a < 0, b < 0, a + b > n), key="stager:truncation-lemma",
                   replay=lambda m: {"lemma_n": m.eval(n, model_completion=True).as_long()}, timeout_ms=240000)


def case_windowed(rec, mult, nmax):
    ST.int = sym_int
    exact = establish_exact_truncation(nmax)
    rec.note(f"float truncations int(0.15 n), int(0.1 n) {'encoded exactly as (15 n) div 100, (10 n) div 100 (verified for all n <= %d)' % nmax if exact else 'abstracted (BVFP lemma)'}")
    rec.encoded(ST.WindowedWarmUpStager.stages, ST.WindowedWarmUpStager.__init__)
    nw, nm = z3.Int("n_warm"), z3.Int("n_main")
    a0, a1, a2 = z3.Int("w_slow"), z3.Int("w_fast0"), z3.Int("w_fast1")
    BASE = [nw >= 0, nw <= nmax, nm >= 0, a0 >= 1, a1 >= 0, a2 >= 0, a0 <= 100, a1 <= 100, a2 <= 100]
    fast, slow = Ad(True), Ad(False)
    adapters = {"t": [fast, slow]}

    def fn(ctx):
        FRESH.clear()
        stg = ST.WindowedWarmUpStager(SI(a0), SI(a1), SI(a2), mult)
        st = stg.stages(SI(nw), SI(nm), adapters, None)
        return st, list(FRESH)
    rec.reachable("windowed", BASE)
    for (stages, fresh), ctx in explore(fn, BASE, max_paths=3000):
        rec.path(ctx)
        lem = []
        tr = [v for v, c, n in fresh]
        if len(tr) == 2:
            lem.append(tr[0] + tr[1] <= nw)
        ass = BASE + ctx.pc + ctx.extra + lem
        warm = [(k, s) for k, s in stages.items() if s.adapters is not None]
        names = list(stages.keys())
        tot = z3.Sum([I(s.n_iter).e for _, s in warm]) if warm else z3.IntVal(0)

        def payload(m):
            return {"stager": "windowed", "mult": mult, "n_warm": m.eval(nw, model_completion=True).as_long(),
                    "n_main": m.eval(nm, model_completion=True).as_long(), "w": [m.eval(x, model_completion=True).as_long() for x in (a0, a1, a2)]}
        label = f"mult={mult} stages={len(names)}"
        rec.obligation(f"{label}: warm-up stage lengths sum to n_warm_up_iter", ass, tot != nw, key="windowed:partition", replay=payload)
        rec.obligation(f"{label}: no stage has a negative length", ass, z3.Or(*[I(s.n_iter).e < 0 for s in stages.values()] + [z3.BoolVal(False)]),
                       key="windowed:negative-length", replay=payload)
        # main stage last, of requested length, without adapters - present iff n_main > 0
        has_main = "Main non-adaptive" in stages
        if has_main:
            ms = stages["Main non-adaptive"]
            ok_struct = names[-1] == "Main non-adaptive" and ms.adapters is None and ms.record_stats is True
            rec.obligation(f"{label}: final stage is the main stage of length n_main_iter without adapters", ass,
                           z3.Or(z3.BoolVal(not ok_struct), I(ms.n_iter).e != nm, nm <= 0), key="windowed:main-stage", replay=payload)
        else:
            rec.obligation(f"{label}: no main stage only if n_main_iter == 0", ass, nm > 0, key="windowed:main-stage", replay=payload)
        bad_adapt = False
        for k, s in warm:
            if k.startswith("Slow"):
                bad_adapt |= not (slow in s.adapters["t"] and fast in s.adapters["t"])
            else:
                bad_adapt |= (slow in s.adapters["t"]) or (fast not in s.adapters["t"])
        rec.obligation(f"{label}: slow adapters only in slow windows, fast adapters in all warm-up stages", ass, z3.BoolVal(bad_adapt),
                       key="windowed:adapter-activation", replay=payload)
        slows = [I(s.n_iter).e for k, s in warm if k.startswith("Slow")]
        if len(slows) > 2:
            incr = z3.Or(*[slows[i] > slows[i + 1] for i in range(len(slows) - 2)])
            rec.obligation(f"{label}: slow windows non-decreasing (except the absorbing last one)", ass, incr, key="windowed:window-growth",
                           replay=payload)
        rec.sample({"stages": names, "path_condition": [str(c) for c in ctx.pc][:8]})


def case_simple(rec):
    rec.encoded(ST.WarmUpStager.stages)
    nw, nm = z3.Int("n_warm"), z3.Int("n_main")
    BASE = [nw >= 0, nm >= 0]
    fast, slow = Ad(True), Ad(False)
    adapters = {"t": [fast, slow]}
    rec.reachable("simple", BASE)
    for stages, ctx in explore(lambda c: ST.WarmUpStager().stages(SI(nw), SI(nm), adapters, None), BASE):
        rec.path(ctx)
        ass = BASE + ctx.pc
        warm = [s for s in stages.values() if s.adapters is not None]
        tot = z3.Sum([I(s.n_iter).e for s in warm]) if warm else z3.IntVal(0)

        def payload(m):
            return {"stager": "simple", "n_warm": m.eval(nw, model_completion=True).as_long(), "n_main": m.eval(nm, model_completion=True).as_long()}
        rec.obligation("WarmUpStager: warm-up lengths sum to n_warm_up_iter", ass, tot != nw, key="simple:partition", replay=payload)
        main = [s for s in stages.values() if s.adapters is None]
        mt = z3.Sum([I(s.n_iter).e for s in main]) if main else z3.IntVal(0)
        rec.obligation("WarmUpStager: main stage length == n_main_iter, last, no adapters", ass,
                       z3.Or(mt != nm, z3.BoolVal(bool(main) and list(stages.values())[-1].adapters is not None)), key="simple:main-stage", replay=payload)
        rec.obligation("WarmUpStager: all adapters active in the warm-up stage", ass,
                       z3.BoolVal(any(s.adapters is not adapters for s in warm)), key="simple:adapter-activation", replay=payload)


# ------------------------------------------------------------------ sampler part (bounded exhaustive, real adapters)
def _run_sampler(n_warm, n_main, n_chain, with_slow, stager_kind):
    import mici.samplers as SA
    import mici.adapters as AD
    import mici.systems as S
    import mici.integrators as IN
    import mici.transitions as T
    system = S.EuclideanMetricSystem(lambda q: 0.5 * q @ q, grad_neg_log_dens=lambda q: q)
    integ = IN.LeapfrogIntegrator(system, step_size=0.25)  # initial default; adaptation (if any) overrides it
    log = []

    class Spy(T.MetropolisStaticIntegrationTransition):
        def sample(self, state, rng):
            m = self.system.metric
            log.append(("iter", float(self.integrator.step_size), tuple(np.asarray(m.diagonal if hasattr(m, "diagonal") else 1.0, dtype=float).ravel())))
            return super().sample(state, rng)

    class SpyStep(AD.DualAveragingStepSizeAdapter):
        def update(self, adapt_state, chain_state, trans_stats, transition):
            super().update(adapt_state, chain_state, trans_stats, transition)
            log.append(("update-step",))

        def finalize(self, adapt_states, chain_states, transition, rngs):
            super().finalize(adapt_states, chain_states, transition, rngs)
            log.append(("finalize-step", float(transition.integrator.step_size)))

    class SpyVar(AD.OnlineVarianceMetricAdapter):
        def update(self, adapt_state, chain_state, trans_stats, transition):
            super().update(adapt_state, chain_state, trans_stats, transition)
            log.append(("update-metric",))

        def finalize(self, adapt_states, chain_states, transition, rngs):
            super().finalize(adapt_states, chain_states, transition, rngs)
            log.append(("finalize-metric", tuple(np.asarray(transition.system.metric.diagonal, dtype=float))))
    tr = Spy(system, integ, n_step=1)
    rng = np.random.default_rng(3)
    sampler = SA.MarkovChainMonteCarloMethod(rng, {"t": tr})
    adapters = {"t": [SpyStep()] + ([SpyVar()] if with_slow else [])}
    stager = {"simple": ST.WarmUpStager(), "windowed": ST.WindowedWarmUpStager(), "default": None}[stager_kind]
    init = [{"pos": np.array([0.3 + c, -0.2]), "mom": np.array([0.1, 0.2]), "dir": 1} for c in range(n_chain)]
    try:
        sampler.sample_chains(n_warm, n_main, init, adapters=adapters, stager=stager, display_progress=False, n_process=1)
    except Exception as e:  # noqa: BLE001
        return log, f"{type(e).__name__}: {e}"
    return log, None


def _check_log(log, n_warm, n_main, n_chain):
    """Main-stage iterations = the last n_main * n_chain 'iter' records (sequential chains).  Returns violation text or None."""
    iters = [(i, e) for i, e in enumerate(log) if e[0] == "iter"]
    n_main_it = n_main * n_chain
    if n_main_it == 0:
        return None
    main = iters[-n_main_it:]
    first_main = main[0][0]
    steps = {e[1] for _, e in main}
    mets = {e[2] for _, e in main}
    if len(steps) != 1 or len(mets) != 1:
        return f"transition parameters change during the main stage: step sizes {sorted(steps)}, metrics {sorted(mets)}"
    # no adapter activity after the first main-stage iteration
    if any(e[0].startswith(("update", "finalize")) for e in log[first_main:]):
        return "adapter update/finalize after the main stage started"
    # expected values: last finalize preceded (since the previous finalize of that kind) by >= 1 update
    exp_step, exp_met = None, None
    upd = {"step": 0, "metric": 0}
    for e in log[:first_main]:
        if e[0] == "update-step":
            upd["step"] += 1
        elif e[0] == "update-metric":
            upd["metric"] += 1
        elif e[0] == "finalize-step":
            if upd["step"] > 0:
                exp_step = e[1]
            upd["step"] = 0
        elif e[0] == "finalize-metric":
            if upd["metric"] > 0:
                exp_met = e[1]
            upd["metric"] = 0
    step = next(iter(steps))
    met = next(iter(mets))
    if n_warm > 0 and exp_step is not None and abs(step - exp_step) > 1e-12 * abs(exp_step):
        return f"main stage runs with step size {step!r}; the last warm-up stage that performed >= 1 update finalised {exp_step!r}"
    if exp_met is not None and any(abs(a - b) > 1e-12 * abs(b) for a, b in zip(met, exp_met)):
        return f"main stage runs with metric diagonal {met}; last updated warm-up stage finalised {exp_met}"
    return None


def case_sampler(rec, n_warm_values, stager_kind, with_slow, n_chain):
    import mici.samplers as SA
    import mici.adapters as AD
    rec.encoded(SA.MarkovChainMonteCarloMethod.sample_chains, SA._sample_chain, SA._finalize_adapters, AD.DualAveragingStepSizeAdapter.finalize,
                AD.OnlineVarianceMetricAdapter.finalize, ST.WindowedWarmUpStager.stages)
    n_main = 3
    for n_warm in n_warm_values:
        rec.path()
        log, err = _run_sampler(n_warm, n_main, n_chain, with_slow, stager_kind)
        key = f"sampler/{stager_kind}/slow={with_slow}"
        if err is not None:
            if "AdaptationError" in err or "At least two chain samples" in err:
                rec.note(f"n_warm={n_warm}: {err} (documented: variance needs >= 2 samples)")
                continue
            rec.candidate(key=key + ":exception", label=f"n_warm_up_iter={n_warm}: {err}",
                          payload={"sampler": [n_warm, n_main, n_chain, with_slow, stager_kind]})
            continue
        v = _check_log(log, n_warm, n_main, n_chain)
        rec.obligation(f"{key} n_warm={n_warm} chains={n_chain}: main-stage parameters constant and equal the last updated warm-up stage's",
                       [], z3.BoolVal(v is not None), key=key + ":main-stage-parameters",
                       replay=lambda m, n_warm=n_warm: {"sampler": [n_warm, n_main, n_chain, with_slow, stager_kind]}, syntactic=True)
        if v is not None:
            rec.candidates[-1]["label"] = v


def cases(tier):
    th = tier == "thorough"
    out = [Case("lemma/bvfp", case_bvfp_lemma, {}, timeout_s=600), Case("simple", case_simple, {}, timeout_s=300)]
    for mult in (2.0, 3.0, 1.5):
        # multiplier 1.5 lets a window of 1 stay 1 (floor(1.5) = 1): the loop then runs n times, so its bound is small
        nmax = (48 if th else 40) if mult == 1.5 else (20000 if th else 2000)
        out.append(Case(f"windowed/mult{mult}", case_windowed, {"mult": mult, "nmax": nmax}, timeout_s=3000))
    rng = list(range(0, 41)) if th else list(range(0, 13))
    for stager_kind, with_slow in (("windowed", True), ("windowed", False), ("simple", True), ("default", True)):
        for n_chain in (1, 2):
            out.append(Case(f"sampler/{stager_kind}/slow{with_slow}/chains{n_chain}", case_sampler,
                            {"n_warm_values": rng, "stager_kind": stager_kind, "with_slow": with_slow, "n_chain": n_chain}, timeout_s=1800))
    return out


def replay(cand):
    p = cand.get("payload") or {}
    if "lemma_n" in p:
        n = p["lemma_n"]
        a, b = int(0.15 * n), int(0.1 * n)
        bad = a < 0 or b < 0 or a + b > n
        return {"reproduced": bad, "detail": f"n={n}: int(0.15n)={a}, int(0.1n)={b}"}
    if "sampler" in p:
        n_warm, n_main, n_chain, with_slow, stager_kind = p["sampler"]
        log, err = _run_sampler(n_warm, n_main, n_chain, with_slow, stager_kind)
        v = err if err else _check_log(log, n_warm, n_main, n_chain)
        return {"reproduced": v is not None, "detail": f"n_warm_up_iter={n_warm}, n_main_iter={n_main}, chains={n_chain}, stager={stager_kind}: {v}"}
    if p.get("stager") == "windowed":
        fast, slow = Ad(True), Ad(False)
        ST.int = builtins.int
        w = p["w"]
        st = ST.WindowedWarmUpStager(w[0], w[1], w[2], p["mult"]).stages(p["n_warm"], p["n_main"], {"t": [fast, slow]}, None)
        warm = [(k, s) for k, s in st.items() if s.adapters is not None]
        tot = sum(s.n_iter for _, s in warm)
        problems = []
        if tot != p["n_warm"]:
            problems.append(f"warm-up lengths sum to {tot} != {p['n_warm']}")
        if any(s.n_iter < 0 for s in st.values()):
            problems.append("negative stage length")
        if p["n_main"] > 0 and (list(st)[-1] != "Main non-adaptive" or st["Main non-adaptive"].n_iter != p["n_main"] or st["Main non-adaptive"].adapters is not None):
            problems.append("main stage wrong")
        for k, s in warm:
            if k.startswith("Slow") != (slow in s.adapters["t"]) or fast not in s.adapters["t"]:
                problems.append(f"adapter activation wrong in {k}")
        sl = [s.n_iter for k, s in warm if k.startswith("Slow")]
        if any(sl[i] > sl[i + 1] for i in range(len(sl) - 2)):
            problems.append(f"slow windows decrease: {sl}")
        return {"reproduced": bool(problems), "detail": f"{p}: stages {[(k, s.n_iter) for k, s in st.items()]}: {problems}"}
    if p.get("stager") == "simple":
        st = ST.WarmUpStager().stages(p["n_warm"], p["n_main"], {"t": []}, None)
        tot = sum(s.n_iter for s in st.values() if s.adapters is not None)
        return {"reproduced": tot != p["n_warm"], "detail": str([(k, s.n_iter) for k, s in st.items()])}
    return {"reproduced": False, "detail": "no replay"}
