"""C10 - structured matrix expressions agree with dense linear algebra.

Every matrix class / constructor option is instantiated with fully symbolic
parameters (sizes 1 and 2) and the real mici code (products, transposes, inverses,
scalar multiples, negation, square roots, block / low-rank composition) is executed
on z3-valued object arrays; each observable (dense array, M@v, v@M, M@B, B@M,
diagonal, log|det|, inverse, sqrt, eigendecomposition) is compared by z3 with an
explicit dense 1x1/2x2/3x3 formula written in the harness.
"""
from __future__ import annotations

import numpy as np

import symx.stubs as stubs
from symx.eqcheck import Item, Skip, run_problem, replay_problem
from symx.harness import Case
from harness import matlib as ml

stubs.install(np_modules=())
import mici.matrices as M  # noqa: E402

META = {
    "level": "model_checking",
    "technique": "symbolic execution of mici.matrices on z3-valued object arrays; z3 (NRA) refutes code != dense formula",
    "explanation": "bounded SMT check: all parameter values symbolic, sizes/depth bounded",
    "bounds": {
        "quick": {"sizes": [1, 2], "tree_depth": 2, "ops": ["T", "inv", "c*", "/c", "neg", "sqrt", "@ (selected pairs)"]},
        "thorough": {"sizes": [1, 2], "tree_depth": 2, "ops": "all unary ops twice + all ordered leaf pairs for @"},
    },
    "outside": "sizes > 3 (blocks reach 3), tree depth > 2, conditioning / round-off, LU with row pivoting (stub assumes "
               "non-zero pivots), eigh/sqrtm beyond their documented contracts",
    "stubs": ["scipy.linalg.solve_triangular/lu_factor/lu_solve (exact elimination, no pivoting)", "numpy.linalg.cholesky "
              "(symbolic recurrence)", "numpy.linalg.eigh (diagonal: exact; dense 2x2: contract)", "scipy.linalg.sqrtm (contract)",
              "LOG/TANH/SINH uninterpreted"],
    "assumptions": ["all recorded denominators non-zero (well-conditioned inputs)", "parameters constructed through the "
                    "documented preconditions (PD as L L^T, orthogonal 2x2 as rotation/reflection)"],
}


def observables(mk, label, obj, R, pd_claims=True):
    """All observable checks of a matrix object against its dense reference."""
    items = []
    n, m = R.shape
    items.append(Item(f"{label}.array", obj.array, R))
    v = mk.arr("v", m)
    items.append(Item(f"{label}@v", obj @ v, R @ v))
    u = mk.arr("u", n)
    items.append(Item(f"u@{label}", u @ obj, u @ R))
    B = mk.arr("B", (m, 2))
    items.append(Item(f"{label}@B", obj @ B, R @ B))
    C = mk.arr("C", (2, n))
    items.append(Item(f"C@{label}", C @ obj, C @ R))
    items.append(Item(f"{label}.T.array", obj.T.array, R.T))
    if n == m:
        items.append(Item(f"{label}.diagonal", obj.diagonal, np.array([R[i, i] for i in range(n)], dtype=R.dtype)))
        if isinstance(obj, M.SquareMatrix):
            items.append(Item(f"{label}.log_abs_det", obj.log_abs_det, abs(ml.det(R)), kind="logabs"))
        if isinstance(obj, M.InvertibleMatrix):
            items.append(Item(f"{label}.inv.array@dense", obj.inv.array @ R, ml.eye(mk, n)))
            items.append(Item(f"dense@({label}.inv@v)", R @ (obj.inv @ v), v))
            items.append(Item(f"(u@{label}.inv)@dense", (u @ obj.inv) @ R, u))
        if isinstance(obj, M.SymmetricMatrix):
            items.append(Item(f"{label} symmetric", R, R.T))
            g0 = stubs.EIGH_LOG["generic"]
            w = obj.eigval
            Q = obj.eigvec.array
            if stubs.EIGH_LOG["generic"] == g0:
                # (when the class just forwards to LAPACK's eigh on an arbitrary array the stub's contract *is*
                # the statement to check, so there is nothing of mici's to decide)
                items.append(Item(f"{label} eigvec diag(eigval) eigvec^T", Q @ np.diag(w) @ Q.T, R))
                items.append(Item(f"{label} eigvec orthogonal", Q.T @ Q, ml.eye(mk, n)))
        if isinstance(obj, M.PositiveDefiniteMatrix):
            S = obj.sqrt
            items.append(Item(f"{label}.sqrt@sqrt.T", S.array @ S.T.array, R))
            items.append(Item(f"{label}.sqrt@(sqrt.T@v)", S @ (S.T @ v), R @ v))
            if not pd_claims:
                pass
            elif mk.symbolic:
                for k in range(1, n + 1):
                    items.append(Item(f"{label} claims PD: minor{k}>0", ml.det(R[:k, :k]) > 0, None, kind="true"))
            else:
                for k in range(1, n + 1):
                    items.append(Item(f"{label} claims PD: minor{k}>0", bool(ml.det(R[:k, :k]) > 0), None, kind="true"))
    return items


def apply_op(mk, op, obj, R, tag):
    if op == "T":
        return obj.T, R.T
    if op == "inv":
        if not isinstance(obj, M.InvertibleMatrix):
            raise Skip("not invertible")
        return obj.inv, ml.inv(R)
    if op == "neg":
        return -obj, -R
    if op == "mul":
        c = mk.nonzero(f"c{tag}")
        return c * obj, c * R
    if op == "rmul":
        c = mk.nonzero(f"c{tag}")
        return obj * c, c * R
    if op == "div":
        c = mk.nonzero(f"c{tag}")
        return obj / c, R / c
    if op == "warm":
        # compute lazily cached helpers first (log-determinant, inverse): later results must not depend on it
        if isinstance(obj, M.SquareMatrix):
            _ = obj.log_abs_det
        if isinstance(obj, M.InvertibleMatrix):
            _ = obj.inv
        return obj, R
    if op == "sqrt":
        if not isinstance(obj, M.PositiveDefiniteMatrix):
            raise Skip("no sqrt")
        S = obj.sqrt
        return S, S.array  # any S with S S^T = M is allowed: S's own array is the reference for deeper ops
    raise KeyError(op)


def prob_leaf(mk, kind, n, ops=()):
    obj, R = ml.make_leaf(M, mk, kind, n)
    label = kind
    for i, op in enumerate(ops):
        obj, R = apply_op(mk, op, obj, R, i)
        label = f"{op}({label})"
    return observables(mk, label, obj, R, pd_claims=not kind.startswith(HEAVY) and len(ops) <= 1)


def prob_product(mk, kl, kr, n, ops=()):
    a, Ra = ml.make_leaf(M, mk, kl, n, "a")
    b, Rb = ml.make_leaf(M, mk, kr, Ra.shape[1], "b")
    if Ra.shape[1] != Rb.shape[0]:
        raise Skip("shape mismatch")
    obj, R = a @ b, Ra @ Rb
    label = f"({kl}@{kr})"
    for i, op in enumerate(ops):
        obj, R = apply_op(mk, op, obj, R, i)
        label = f"{op}({label})"
    return observables(mk, label, obj, R)


def prob_implicit(mk, kind):
    """Implicitly sized identities: the subset of operations that needs no size."""
    items = []
    v = mk.arr("v", 2)
    B = mk.arr("B", (2, 2))
    if kind == "identity":
        obj, s = M.IdentityMatrix(), 1
    elif kind == "scaled":
        s = mk.nonzero("s")
        obj = M.ScaledIdentityMatrix(s)
    else:
        s = mk.pos("s")
        obj = M.PositiveScaledIdentityMatrix(s)
    items.append(Item(f"implicit {kind}@v", obj @ v, s * v))
    items.append(Item(f"v@implicit {kind}", v @ obj, s * v))
    items.append(Item(f"implicit {kind}@B", obj @ B, s * B))
    items.append(Item(f"implicit {kind}.inv@v", obj.inv @ v, v / s))
    items.append(Item(f"implicit {kind}.T@v", obj.T @ v, s * v))
    c = mk.nonzero("c")
    items.append(Item(f"(c*implicit {kind})@v", (c * obj) @ v, c * s * v))
    if kind != "scaled":
        S = obj.sqrt
        items.append(Item(f"implicit {kind}.sqrt@(sqrt.T@v)", S @ (S.T @ v), s * v))
    # diagonal / eigval of an implicitly sized identity are documented only for explicit sizes; mici's own
    # Gaussian flow asks for metric.eigval on the default implicit identity (checked under C07)
    return items


UNARY = ["T", "inv", "neg", "mul", "div", "sqrt"]
PROBS = {"leaf": prob_leaf, "prod": prob_product, "implicit": prob_implicit}


def run_group(rec, probs):
    """One worker handles a group of problems (amortises interpreter start-up)."""
    rec.encoded(M.Matrix.__matmul__, M.Matrix.__rmatmul__, M.Matrix.__mul__, M.Matrix.__truediv__, M.Matrix.__neg__)
    rec.assume("denominators recorded during execution are non-zero")
    for pname, kw in probs:
        for k in ("kind", "kl", "kr"):
            if k in kw:
                _encode_kind(rec, kw[k])
        run_problem(rec, PROBS[pname], kw, key_prefix=f"{pname}/{_keyfor(kw)}:", timeout_ms=60000)


def _keyfor(kw):
    return "/".join(str(kw[k]) for k in ("kind", "kl", "kr") if k in kw) + ("+" + ".".join(kw.get("ops", ())) if kw.get("ops") else "")


_KIND_CLASSES = {
    "identity": "IdentityMatrix", "scaled_identity": "ScaledIdentityMatrix", "pos_scaled_identity": "PositiveScaledIdentityMatrix",
    "diagonal": "DiagonalMatrix", "pos_diagonal": "PositiveDiagonalMatrix", "tri": "TriangularMatrix", "invtri": "InverseTriangularMatrix",
    "trifact_pd": "TriangularFactoredPositiveDefiniteMatrix", "trifact": "TriangularFactoredDefiniteMatrix",
    "dense_def": "DenseDefiniteMatrix", "dense_pd_product": "DensePositiveDefiniteProductMatrix", "dense_pd": "DensePositiveDefiniteMatrix",
    "dense_square": "DenseSquareMatrix", "inv_lu": "InverseLUFactoredSquareMatrix", "dense_sym": "DenseSymmetricMatrix",
    "orthogonal": "OrthogonalMatrix", "scaled_orthogonal": "ScaledOrthogonalMatrix", "eig_sym": "EigendecomposedSymmetricMatrix",
    "eig_pd": "EigendecomposedPositiveDefiniteMatrix", "softabs": "SoftAbsRegularizedPositiveDefiniteMatrix",
    "blockdiag_square": "SquareBlockDiagonalMatrix", "blockdiag_sym": "SymmetricBlockDiagonalMatrix",
    "blockdiag_pd": "PositiveDefiniteBlockDiagonalMatrix", "lowrank_square": "SquareLowRankUpdateMatrix",
    "lowrank_sym": "SymmetricLowRankUpdateMatrix", "lowrank_pd": "PositiveDefiniteLowRankUpdateMatrix",
    "dense_rect": "DenseRectangularMatrix", "block_row": "BlockRowMatrix", "block_col": "BlockColumnMatrix",
}


def _encode_kind(rec, kind):
    best = None
    for pre, cls in _KIND_CLASSES.items():
        if kind.startswith(pre) and (best is None or len(pre) > len(best[0])):
            best = (pre, cls)
    if best:
        rec.encoded(getattr(M, best[1]))


D2 = [("warm", "T"), ("inv", "T"), ("T", "inv"), ("mul", "inv"), ("inv", "mul"), ("neg", "inv"), ("sqrt", "inv"), ("inv", "sqrt"),
      ("mul", "sqrt"), ("div", "T"), ("mul", "mul"), ("inv", "inv"), ("sqrt", "T")]
D2_K2_QUICK = [("warm", "T"), ("inv", "T"), ("T", "inv"), ("mul", "inv"), ("inv", "mul"), ("neg", "inv")]  # (inv.inv: z3 does not finish)
QUICK_D2_KINDS = ["pos_diagonal", "tri_lower", "dense_square", "dense_square_lu_transposed", "dense_pd", "lowrank_square_neg", "scaled_orthogonal", "inv_lu", "lowrank_square_k2",
                  "lowrank_square_k2_cap"]
HEAVY = ("lowrank_pd", "dense_pd_product")  # Cholesky/sqrtm chains: seconds per obligation


def cases(tier):
    out = []
    thorough = tier == "thorough"

    def G(name, probs, timeout_s=1200):
        # (thorough tier: the longest cases take ~14 min on the 16-core sandbox; a generous cap so that a loaded machine does not turn
        # them into inconclusive results)
        out.append(Case(name, run_group, {"probs": probs}, timeout_s=3 * timeout_s if thorough else timeout_s))

    for n in (1, 2):
        for kind in ml.leaves(n):
            heavy = kind.startswith(HEAVY) or kind == "softabs_dense"
            G(f"leaf/{kind}/n{n}/base", [("leaf", {"kind": kind, "n": n})])
            if (heavy and not thorough or kind == "softabs_dense") and n == 2:
                for op in (("T",) if kind == "softabs_dense" else ("T", "inv", "mul")):  # (softabs_dense inv/mul: minutes of z3 time per obligation)
                    G(f"leaf/{kind}/n{n}/{op}", [("leaf", {"kind": kind, "n": n, "ops": (op,)})])
                continue
            if n == 2:
                for op in UNARY:
                    if not thorough and kind in ("softabs_dense", "blockdiag_pd") and op in ("sqrt", "mul", "div", "inv"):
                        continue
                    if not thorough and kind in ("softabs_diag", "trifact_pd_upper", "eig_pd", "dense_pd_product_inner", "lowrank_pd_inner",
                                                 "dense_def_neg_factor", "dense_pd_factor") and op in ("div", "neg"):
                        continue
                    G(f"leaf/{kind}/n{n}/{op}", [("leaf", {"kind": kind, "n": n, "ops": (op,)})])
            elif thorough:
                G(f"leaf/{kind}/n{n}/unary", [("leaf", {"kind": kind, "n": n, "ops": (op,)}) for op in UNARY])
            else:
                G(f"leaf/{kind}/n{n}/unary", [("leaf", {"kind": kind, "n": n, "ops": (op,)}) for op in ("inv", "mul")])
        for kind in ml.RECT:
            G(f"rect/{kind}/n{n}", [("leaf", {"kind": kind, "n": n})]
              + [("leaf", {"kind": kind, "n": n, "ops": (op,)}) for op in ("T", "neg", "mul", "div")])
    G("implicit", [("implicit", {"kind": k}) for k in ("identity", "scaled", "pos_scaled")])
    # depth 2: op o op
    for n in ((1, 2) if thorough else (2,)):
        for kind in (ml.leaves(n) if thorough else QUICK_D2_KINDS):
            if kind in ("blockdiag_pd", "eig_pd") and not thorough:
                continue
            if kind == "softabs_dense":
                continue  # (minutes of z3 time per obligation already for single operations: both tiers)
            if kind.startswith("lowrank_square_k2"):
                # rank-2 capacitance: a minute or more per operation pair, so one worker per pair and the pairs that exercise
                # the capacitance matrix (inverse / transpose / scaling interplay) only
                for ops in D2_K2_QUICK:
                    G(f"leaf/{kind}/n{n}/{'.'.join(ops)}", [("leaf", {"kind": kind, "n": n, "ops": ops})])
            elif kind.startswith(HEAVY) and n == 2:
                for ops in D2:
                    G(f"leaf/{kind}/n{n}/{'.'.join(ops)}", [("leaf", {"kind": kind, "n": n, "ops": ops})])
            else:
                G(f"leaf/{kind}/n{n}/depth2", [("leaf", {"kind": kind, "n": n, "ops": ops}) for ops in D2])
    # products
    pair_kinds = ["diagonal", "tri_lower", "dense_square", "dense_pd", "orthogonal", "scaled_identity",
                  "invtri_upper", "trifact_neg_upper"]
    if thorough:
        pair_kinds = ["diagonal", "pos_diagonal", "tri_lower", "invtri_upper", "trifact_neg_upper", "dense_square", "inv_lu", "dense_pd",
                      "dense_sym", "eig_sym", "orthogonal", "scaled_identity"]
    prods = []
    if thorough:
        for kl in pair_kinds:
            for kr in pair_kinds:
                if (kl, kr) != ("dense_sym", "dense_sym"):  # (> 1200 s)
                    prods.append((kl, kr))
        # low-rank updates in products: with the cheap partners only (with dense_sym / eig_sym / each other: > 1200 s or > 400 paths)
        prods += [("lowrank_sym", "diagonal"), ("diagonal", "lowrank_sym"), ("lowrank_square_k2", "diagonal"), ("diagonal", "lowrank_square_k2"),
                  ("lowrank_sym", "scaled_identity"), ("tri_lower", "lowrank_square_k2")]
    else:
        for i, kl in enumerate(pair_kinds):
            prods.append((kl, pair_kinds[(i + 1) % len(pair_kinds)]))
        prods += [("lowrank_sym", "diagonal"), ("dense_pd", "eig_sym")]
    opsets = ((), ("inv",)) if not thorough else ((), ("inv",), ("T",), ("mul",), ("neg",), ("inv", "T"))
    for kl, kr in prods:
        G(f"prod/{kl}@{kr}", [("prod", {"kl": kl, "kr": kr, "n": 2, "ops": ops}) for ops in opsets])
    G("prod/rect", [("prod", {"kl": kl, "kr": kr, "n": 1}) for kl, kr in
                    (("dense_rect", "block_col"), ("block_row", "block_col"), ("dense_pd", "dense_rect"), ("block_col", "dense_rect"))])
    return out


def replay(cand):
    prob = PROBS[cand["key"].split("/", 1)[0]]
    p = cand.get("payload") or {}
    kw = p.get("kwargs", {})
    if "ops" in kw and isinstance(kw["ops"], list):
        kw["ops"] = tuple(kw["ops"])
    return replay_problem(prob, cand)
