"""C18 - memoisation delivers its efficiency contract.

Same histories as C09 with call counters on every user model function: a repeated sweep of all cached methods, a sweep on a
copy, and a sweep after an operation that changes no dependency evaluate no user function again; with derivative functions
that also return lower-order values (the 'aux' convention) the lower-order methods cost nothing.  Trajectories: the real
explicit integrators under the real Metropolis / dynamic transitions evaluate the gradient at most once per new position.
"""
from __future__ import annotations

import math
import numpy as np
import z3

from symx.eqcheck import run_problem, replay_problem, Item
from symx.harness import Case
from harness import cachelib as CL

META = {
    "level": "model_checking",
    "technique": "bounded exhaustive histories over the real state cache with call counters on the user functions; per-history counter "
                 "predicates; trajectory runs of the real integrators/transitions with counters",
    "explanation": "histories enumerated; counters are concrete, values symbolic",
    "bounds": {"quick": {"history_length": 2, "n_step": "1-4", "tree_depth": 2}, "thorough": {"history_length": 3, "n_step": "1-6"}},
    "outside": "histories longer than the bound; autodiff back ends",
    "stubs": ["LAPACK stubs"],
    "assumptions": [],
}


def prob(mk, sname, history, convention="plain"):
    items = CL.prob_history(mk, sname, history, convention=convention, efficiency=True)
    return [it for it in items if it.kind == "true"]


FAMILIES = {
    # family of user functions -> system methods from the highest derivative order down (each returns the lower ones too in the
    # 'aux' convention), and the call counter object they are counted on
    "model": ["mtp_neg_log_dens", "hess_neg_log_dens", "grad_neg_log_dens", "neg_log_dens"],
    "metric_model": ["vjp_metric_func", "metric_func"],
    "constraint": ["mhp_constr", "jacob_constr", "constr"],
}


def prob_aux(mk, sname):
    """After a derivative method ran with the 'aux' convention, the lower-order methods of the same family evaluate nothing:
    for every family of user functions the system has (density / metric / constraint) and for EVERY method of the family as
    the first call (matrix-Tressian product, Hessian, gradient; metric VJP; constraint MHP, Jacobian), plus the composite
    dh_dpos -> h1 / neg_log_dens."""
    systems, dim = CL.build(mk, sname, "aux", False)
    sysm, info = systems[0]
    q, p = mk.arr("q", dim), mk.arr("p", dim)
    if "metric_model" in info:
        info["metric_model"].require_valid(mk, list(q))
    items = []

    def counts():
        return {k: dict(info[k].calls) for k in ("model", "metric_model", "constraint") if k in info}
    st = CL.ChainState(pos=q.copy(), mom=p.copy(), dir=1)
    sysm.dh_dpos(st)
    before = counts()
    sysm.h1(st)
    sysm.neg_log_dens(st)
    after = counts()
    ok = before == after
    items.append(Item(f"{sname}: values returned alongside derivatives are reused (h1 / neg_log_dens cost nothing after dh_dpos)" + ("" if ok else f": {before} -> {after}"),
                      ok if not mk.symbolic else z3.BoolVal(ok), None, kind="true"))
    for fam, order in FAMILIES.items():
        if fam not in info:
            continue
        present = [m for m in order if callable(getattr(sysm, m, None)) and getattr(sysm, "_" + m, True) is not None]
        for first_i, first in enumerate(present[:-1]):
            st = CL.ChainState(pos=q.copy(), mom=p.copy(), dir=1)
            try:
                getattr(sysm, first)(st)
            except Exception:  # noqa: BLE001  (method not available for this configuration)
                continue
            before = dict(info[fam].calls)
            for later in present[first_i + 1:]:
                getattr(sysm, later)(st)
            # also on a copy of the state: copies share the cached auxiliary values
            st2 = st.copy()
            for later in present[first_i + 1:]:
                getattr(sysm, later)(st2)
            after = dict(info[fam].calls)
            ok = before == after
            items.append(Item(f"{sname}: after {first}(state) the lower-order {present[first_i + 1:]} evaluate no user function (state and copy)"
                              + ("" if ok else f": calls {before} -> {after}"), ok if not mk.symbolic else z3.BoolVal(ok), None, kind="true"))
    return items


def run_group(rec, probs):
    rec.encoded(CL.ST.cache_in_state, CL.ST.cache_in_state_with_aux, CL.ST.ChainState.copy, CL.ST.ChainState.__setattr__)
    for pname, kw in probs:
        run_problem(rec, {"hist": prob, "aux": prob_aux}[pname], kw, key_prefix=f"{pname}/{kw['sname']}:", timeout_ms=30000, max_paths=50)


def case_trajectories(rec, n_steps):
    import mici.systems as S
    import mici.integrators as IN
    import mici.transitions as T
    rec.encoded(IN.LeapfrogIntegrator._step, IN.SymmetricCompositionIntegrator._step, T.MetropolisIntegrationTransition._sample_n_step,
                T.DynamicIntegrationTransition._build_tree, S.System.h1_flow)
    viol = {}
    n = 0
    for conv in ("plain", "aux"):
        for n_step in n_steps:
            for tk in ("static", "multinomial", "slice"):
                cnt = {"grad": 0, "nld": 0}

                def nld(q):
                    cnt["nld"] += 1
                    return 0.5 * q @ q

                def grad(q):
                    cnt["grad"] += 1
                    return (q, 0.5 * q @ q) if conv == "aux" else q
                system = S.EuclideanMetricSystem(nld, grad_neg_log_dens=grad)
                integ = IN.LeapfrogIntegrator(system, 0.3)
                if tk == "static":
                    tr = T.MetropolisStaticIntegrationTransition(system, integ, n_step=n_step)
                else:
                    cls = T.MultinomialDynamicIntegrationTransition if tk == "multinomial" else T.SliceDynamicIntegrationTransition
                    tr = cls(system, integ, max_tree_depth=2)
                for seed in range(4, 10):  # several direction / selection draw sequences per configuration
                    rng = np.random.default_rng(seed)
                    st = CL.ChainState(pos=np.array([0.4, -0.3]), mom=np.array([0.2, 0.5]), dir=1)
                    cnt["grad"] = cnt["nld"] = 0
                    for it in range(3):
                        g0 = cnt["grad"]
                        st, stats = tr.sample(st, rng)
                        steps = int(stats["n_step"])
                        new_grads = cnt["grad"] - g0
                        n += 1
                        # first transition: n + 1 gradient evaluations, later ones: n (start position cached across the copy)
                        limit = steps + (1 if it == 0 else 1)
                        if new_grads > limit:
                            viol.setdefault(f"{tk}:{conv}", f"{tk} ({conv}) iteration {it}: {new_grads} gradient evaluations for {steps} leapfrog steps (limit {limit})")
                        # (the Hamiltonian of the very first state is requested before any derivative: one legitimate evaluation)
                        if conv == "aux" and cnt["nld"] > 1:
                            viol.setdefault(f"{tk}:aux-values", f"{tk}: neg_log_dens evaluated {cnt['nld']} times although the gradient returns the value")
                        st.mom = rng.standard_normal(2)
    rec.paths = n
    for k, msg in viol.items():
        rec.candidate(key=f"trajectory:{k}", label=msg, payload={"trajectory": k})
    rec.obligation(f"trajectories: gradient evaluations <= steps + 1 in {n} transition runs", [], z3.BoolVal(False), syntactic=True)


def cases(tier):
    th = tier == "thorough"
    out = []
    hs = CL.histories(3, False) if th else CL.histories(2, False, ops=["set_pos", "set_mom", "set_dir", "copy", "copy_ro", "view_ro", "switch"])
    hs += [["set_pos_ro"], ["set_pos_ro", "copy"], ["set_pos_ro", "copy_ro"], ["copy", "set_pos_ro"], ["set_mom", "set_pos_ro"]]
    for sname in CL.SYSTEMS:
        for conv in ("plain", "aux"):
            out.append(Case(f"hist/{sname}/{conv}", run_group, {"probs": [("hist", {"sname": sname, "history": h, "convention": conv}) for h in hs]},
                            timeout_s=1800))
        out.append(Case(f"aux/{sname}", run_group, {"probs": [("aux", {"sname": sname})]}, timeout_s=300))
    out.append(Case("trajectories", case_trajectories, {"n_steps": [1, 2, 3, 4, 5, 6] if th else [1, 2, 3, 4]}, timeout_s=600))
    return out


def replay(cand):
    p = cand.get("payload") or {}
    if "trajectory" in p:
        return {"reproduced": True, "detail": cand["label"] + " (counted on the real code)"}
    name = cand["key"].split("/", 1)[0]
    return replay_problem({"hist": prob, "aux": prob_aux}[name], cand)
