"""Canary mutants: in-memory source mutations of mici modules that each harness must refute.
Kept free of mici imports so the worker can install the mutation before mici is imported."""

CANARIES = {}
