"""Canary mutants: in-memory source mutations of mici modules that each harness must refute.
Kept free of mici imports so the worker can install the mutation before mici is imported.
Each entry: module, old, new (exact source substrings), cases (names of harness cases to run), what."""

CANARIES = {
    "C10": {
        "invtri_transpose_flag": {
            "module": "mici.matrices",
            "old": "        return InverseTriangularMatrix(\n            self._inverse_array.T,\n            lower=not self.lower,",
            "new": "        return InverseTriangularMatrix(\n            self._inverse_array.T,\n            lower=self.lower,",
            "cases": ["leaf/invtri_lower/n2/T"], "what": "transpose of an inverse-triangular matrix keeps the wrong triangle flag",
        },
        "diag_left_multiply_axis": {
            "module": "mici.matrices",
            "old": "            return self.diagonal[:, None] * other",
            "new": "            return self.diagonal[None, :] * other",
            "cases": ["leaf/diagonal/n2/base"], "what": "DiagonalMatrix @ 2-D array scales columns instead of rows",
        },
        "lowrank_logdet_drops_inner": {
            "module": "mici.matrices",
            "old": "            self.square_matrix.log_abs_det\n            + self.inner_square_matrix.log_abs_det\n",
            "new": "            self.square_matrix.log_abs_det\n",
            "cases": ["leaf/lowrank_square/n2/base"], "what": "matrix determinant lemma without the inner-matrix term",
        },
        "scaled_orth_inverse_not_transposed": {
            "module": "mici.matrices",
            "old": "        return ScaledOrthogonalMatrix(1 / self._scalar, self._orth_array.T)\n\n    def _compute_hash",
            "new": "        return ScaledOrthogonalMatrix(1 / self._scalar, self._orth_array)\n\n    def _compute_hash",
            "cases": ["leaf/scaled_orthogonal/n2/base"], "what": "inverse of a scaled orthogonal matrix forgets the transpose",
        },
        "woodbury_downdate_sign": {
            "module": "mici.matrices",
            "old": "                self.inner_square_matrix.inv.array\n                + self._sign\n                * (",
            "new": "                self.inner_square_matrix.inv.array\n                + (",
            "cases": ["leaf/lowrank_square_neg/n2/base"], "what": "capacitance matrix ignores sign=-1 (the defect fixed in /repo)",
        },
    },
    "C11": {
        "trifact_grad_spurious_sign": {
            "module": "mici.matrices",
            "old": "            -2 * np.outer(inv_vector, inv_factor_vector),",
            "new": "            -2 * self.sign * np.outer(inv_vector, inv_factor_vector),",
            "cases": ["grad/trifact_neg_lower/n2"], "what": "the original spurious sign factor (fixed in /repo)",
        },
        "diag_grad_quadratic_form": {
            "module": "mici.matrices",
            "old": "        return -((self.inv @ vector) ** 2)",
            "new": "        return -(self.inv @ vector**2)",
            "cases": ["grad/diagonal/n2"], "what": "gradient of v^T D^-1 v with the square in the wrong place",
        },
        "lowrank_grad_logdet_factor": {
            "module": "mici.matrices",
            "old": "        return (\n            2\n            * self._sign\n            * (self.inv @ (self.factor_matrix.array @ self.inner_pos_def_matrix))",
            "new": "        return (\n            1\n            * self._sign\n            * (self.inv @ (self.factor_matrix.array @ self.inner_pos_def_matrix))",
            "cases": ["grad/lowrank_pd/n2"], "what": "low-rank log-determinant gradient off by a factor 2",
        },
    },
    "C05": {
        "riemannian_dh2_dpos_half": {
            "module": "mici.systems",
            "old": "        return 0.5 * vjp_metric(self.metric(state).grad_quadratic_form_inv(state.mom))",
            "new": "        return vjp_metric(self.metric(state).grad_quadratic_form_inv(state.mom))",
            "cases": ["system/diagonal/2/plain"], "what": "Riemannian dh2_dpos loses its factor 1/2",
        },
        "gauss_dh_dpos_omits_h2": {
            "module": "mici.systems",
            "old": "        return self.dh1_dpos(state) + self.dh2_dpos(state)\n\n    def h2_flow(self, state: ChainState, dt: ScalarLike) -> None:\n        omega",
            "new": "        return self.dh1_dpos(state)\n\n    def h2_flow(self, state: ChainState, dt: ScalarLike) -> None:\n        omega",
            "cases": ["system/gauss/2/diag/plain"], "what": "Gaussian-split dh_dpos without the h2 term (the defect fixed in /repo)",
        },
        "constrained_h1_missing_gram": {
            "module": "mici.systems",
            "old": "        return self.neg_log_dens(state) + self.log_det_sqrt_gram(state)",
            "new": "        return self.neg_log_dens(state) + 2 * self.log_det_sqrt_gram(state)",
            "cases": ["system/constr/2/diag/sphere/False/plain"], "what": "Gram log-determinant correction doubled",
        },
    },
    "C07": {
        "gauss_flow_sign": {
            "module": "mici.systems",
            "old": "            cos_omega_dt * eigvec_trans_mom - (sin_omega_dt / omega) * eigvec_trans_pos",
            "new": "            cos_omega_dt * eigvec_trans_mom + (sin_omega_dt / omega) * eigvec_trans_pos",
            "cases": ["flow/gauss/1/diag"], "what": "Gaussian-split rotation with the wrong sign",
        },
        "h1_flow_sign": {
            "module": "mici.systems",
            "old": "        state.mom -= dt * self.dh1_dpos(state)",
            "new": "        state.mom += dt * self.dh1_dpos(state)",
            "cases": ["flow/euclid/1/diag"], "what": "h1 flow kicks the momentum the wrong way",
        },
        "gauss_dmom_block": {
            "module": "mici.systems",
            "old": "                sin_omega_dt * omega,\n            ),",
            "new": "                sin_omega_dt / omega,\n            ),",
            "cases": ["flow_dmom/gauss_constr/2/diag"], "what": "dh2_flow_dmom position block uses 1/omega instead of omega",
        },
    },
    "C08": {
        "correlated_coefficient": {
            "module": "mici.transitions",
            "old": "            state.mom *= (1.0 - self.mom_resample_coeff**2) ** 0.5",
            "new": "            state.mom *= (1.0 - self.mom_resample_coeff) ** 0.5",
            "cases": ["correlated/euclid/2/diag"], "what": "partial refreshment with sqrt(1-c) instead of sqrt(1-c^2)",
        },
        "projection_without_inverse_metric": {
            "module": "mici.systems",
            "old": "            self.inv_gram(state) @ (self.jacob_constr(state) @ (self.metric.inv @ mom))",
            "new": "            self.inv_gram(state) @ (self.jacob_constr(state) @ mom)",
            "cases": ["momentum/constr/2/diag/linear"], "what": "cotangent projection forgets M^-1",
        },
        "riemannian_sample_uses_inverse": {
            "module": "mici.systems",
            "old": "        return self.metric(state).sqrt @ rng.normal(size=state.pos.shape)",
            "new": "        return self.metric(state).inv.sqrt @ rng.normal(size=state.pos.shape)",
            "cases": ["momentum/diagonal/1"], "what": "Riemannian momenta drawn with the inverse metric as covariance",
        },
    },
    "C01": {
        "multinomial_uses_inner_weight": {
            "module": "mici.transitions",
            "old": "        accept_outer_prob = self._weight_ratio(outer_tree.weight, tree.weight)",
            "new": "        accept_outer_prob = self._weight_ratio(inner_tree.weight, tree.weight)",
            "cases": ["multinomial/depth2/extraTrue"], "what": "progressive sampling weighs the inner instead of the outer sub-tree",
        },
        "metropolis_inverted_ratio": {
            "module": "mici.transitions",
            "old": "            h_diff = h_init - h_final",
            "new": "            h_diff = h_final - h_init",
            "cases": ["metropolis/static/2"], "what": "Metropolis accept ratio inverted",
        },
        "subtree_check_momentum_sum": {
            "module": "mici.transitions",
            "old": "                neg_subtree.sum_mom + pos_subtree.negative.mom,",
            "new": "                neg_subtree.sum_mom,",
            "cases": ["multinomial/depth2/extraTrue"], "what": "extra sub-tree check gets a momentum sum that misses one state",
        },
        "n_step_statistic": {
            "module": "mici.transitions",
            "old": "                stats[\"n_step\"] += 1",
            "new": "                stats[\"n_step\"] += 2",
            "cases": ["slice/depth1/extraTrue"], "what": "reported step count differs from steps taken",
        },
        "slice_biased_selection": {
            "module": "mici.transitions",
            "old": "        return min(numerator / denominator, 1) if denominator > 0 else min(numerator, 1)",
            "new": "        return min(numerator, 1)",
            "cases": ["slice/depth2/extraFalse"], "what": "slice sampler always moves to a new valid sub-tree",
        },
    },
    "C02": {
        "composition_not_palindromic": {
            "module": "mici.integrators",
            "old": "        self.coefficients = coefficients + coefficients[-2::-1]",
            "new": "        self.coefficients = coefficients + coefficients[:-1]",
            "cases": ["rev/symcomp2/euclid/2/diag/n1/d1"], "what": "composition coefficients repeated instead of mirrored",
        },
        "leapfrog_asymmetric": {
            "module": "mici.integrators",
            "old": "        self.system.h1_flow(state, 0.5 * time_step)\n        self.system.h2_flow(state, time_step)\n        self.system.h1_flow(state, 0.5 * time_step)",
            "new": "        self.system.h1_flow(state, 0.25 * time_step)\n        self.system.h2_flow(state, time_step)\n        self.system.h1_flow(state, 0.75 * time_step)",
            "cases": ["rev/leapfrog/euclid/2/diag/n1/d1"], "what": "unequal half kicks",
        },
        "step_mutates_input": {
            "module": "mici.integrators",
            "old": "        state = state.copy()\n        self._step(state, state.dir * self.step_size)",
            "new": "        self._step(state, state.dir * self.step_size)",
            "cases": ["rev/leapfrog/euclid/1/identity/n1/d1"], "what": "step works in place on the caller's state",
        },
        "constrained_final_projection_missing": {
            "module": "mici.integrators",
            "old": "        self._step_b(state, time_step)\n        self._step_a(state, 0.5 * time_step)",
            "new": "        self._step_b(state, time_step)\n        self.system.h1_flow(state, 0.5 * time_step)",
            "cases": ["constrained/newton/identity/inner1"], "what": "last half kick not projected onto the cotangent space",
        },
        "implicit_midpoint_two_forward_halves": {
            "module": "mici.integrators",
            "old": "        self._step_a_fwd(state, time_step / 2)\n        self._step_a_adj(state, time_step / 2)",
            "new": "        self._step_a_fwd(state, time_step / 2)\n        self._step_a_fwd(state, time_step / 2)",
            "cases": ["series_rev/implicit_midpoint/euclid/1"], "what": "implicit Euler twice instead of implicit + explicit half step",
        },
    },
    "C03": {
        "h1_flow_scales_momentum": {
            "module": "mici.systems",
            "old": "        state.mom -= dt * self.dh1_dpos(state)",
            "new": "        state.mom = (1 + dt) * state.mom - dt * self.dh1_dpos(state)",
            "cases": ["flows/euclid/1/diag"], "what": "kick rescales the momentum (not volume preserving)",
        },
        "gauss_rotation_amplitude": {
            "module": "mici.systems",
            "old": "            cos_omega_dt * eigvec_trans_pos + (sin_omega_dt * omega) * eigvec_trans_mom",
            "new": "            cos_omega_dt * eigvec_trans_pos + sin_omega_dt * eigvec_trans_mom",
            "cases": ["flows/gauss/1/diag"], "what": "Gaussian-split rotation with a wrong amplitude",
        },
        "leapfrog_bypasses_flow": {
            "module": "mici.integrators",
            "old": "        self.system.h2_flow(state, time_step)\n        self.system.h1_flow(state, 0.5 * time_step)",
            "new": "        state.pos = state.pos + 2 * time_step * self.system.dh2_dmom(state)\n        self.system.h1_flow(state, 0.5 * time_step)",
            "cases": ["structure/leapfrog"], "what": "step writes the position outside the component flows",
        },
    },
    "C06": {
        "constrained_unequal_half_kicks": {
            "module": "mici.integrators",
            "old": "        self._step_a(state, 0.5 * time_step)\n        self._step_b(state, time_step)\n        self._step_a(state, 0.5 * time_step)",
            "new": "        self._step_a(state, 0.25 * time_step)\n        self._step_b(state, time_step)\n        self._step_a(state, 0.75 * time_step)",
            "cases": ["constrained/newton/inner1"], "what": "constrained leapfrog with unequal momentum half steps (first-order accurate only)",
        },
        "leapfrog_becomes_symplectic_euler": {
            "module": "mici.integrators",
            "old": "        self.system.h1_flow(state, 0.5 * time_step)\n        self.system.h2_flow(state, time_step)\n        self.system.h1_flow(state, 0.5 * time_step)",
            "new": "        self.system.h1_flow(state, time_step)\n        self.system.h2_flow(state, time_step)",
            "cases": ["order2/leapfrog/euclid/1/diag"], "what": "first-order splitting",
        },
        "implicit_leapfrog_full_steps": {
            "module": "mici.integrators",
            "old": "        half_time_step = 0.5 * time_step",
            "new": "        half_time_step = time_step",
            "cases": ["order2/implicit_leapfrog/euclid/1"], "what": "the original defect: all sub-steps take the full time step",
        },
        "composition_coefficient_sign": {
            "module": "mici.integrators",
            "old": "            0.5 - sum(free_coefficients[(n_free_coefficients) % 2 :: 2]),",
            "new": "            0.5 + sum(free_coefficients[(n_free_coefficients) % 2 :: 2]),",
            "cases": ["coefficients/2/False"], "what": "derived coefficient with the wrong sign: weights no longer sum to one",
        },
    },
    "C20": {
        "logrep_rtruediv_swapped": {
            "module": "mici.utils",
            "old": "        return other / self.val",
            "new": "        return self.val / other",
            "cases": ["specials"], "what": "plain / LogRepFloat computes the reciprocal quotient (mixed operations with plain numbers)",
        },
        "logrep_iadd_plain_not_logged": {
            "module": "mici.utils",
            "old": "            self.log_val = log_sum_exp(self.log_val, log(other))",
            "new": "            self.log_val = log_sum_exp(self.log_val, other)",
            "cases": ["specials"], "what": "in-place accumulation of a plain number adds exp(number)",
        },
        "log1m_exp_dead_branch": {
            "module": "mici.utils",
            "old": "    if val > -LOG_2:\n        return log(-expm1(val))",
            "new": "    if val > LOG_2:\n        return log(-expm1(val))",
            "cases": ["precision/log1m_exp"], "what": "the original defect: expm1 branch unreachable, precision lost as val -> 0-",
        },
        "log1p_exp_wrong_branch": {
            "module": "mici.utils",
            "old": "    if val > 0.0:\n        return val + log1p(exp(-val))",
            "new": "    if val > 0.0:\n        return val + log1p(exp(val))",
            "cases": ["precision/log1p_exp"], "what": "wrong sign inside the large-argument branch",
        },
        "log_sum_exp_wrong_difference": {
            "module": "mici.utils",
            "old": "    if val1 > val2:\n        return val1 + log1p_exp(val2 - val1)",
            "new": "    if val1 > val2:\n        return val1 + log1p_exp(val1 - val2)",
            "cases": ["precision/log_sum_exp"], "what": "log_sum_exp adds the wrong (positive) difference",
        },
        "logrep_sub_order": {
            "module": "mici.utils",
            "old": "            if self.log_val >= other.log_val:\n                return LogRepFloat(log_val=log_diff_exp(self.log_val, other.log_val))",
            "new": "            if self.log_val >= other.log_val:\n                return LogRepFloat(log_val=log_diff_exp(other.log_val, self.log_val))",
            "cases": ["algebra"], "what": "LogRepFloat subtraction with swapped operands",
        },
    },
    "C12": {
        "metropolis_ignores_nan": {
            "module": "mici.transitions",
            "old": "            accept_prob = 0.0 if np.isnan(h_diff) else np.exp(min(0, h_diff))\n        else:",
            "new": "            accept_prob = 1.0 if np.isnan(h_diff) else np.exp(min(0, h_diff))\n        else:",
            "cases": ["transition/static"], "what": "NaN energy difference accepted instead of rejected",
        },
        "flag_not_recorded": {
            "module": "mici.transitions",
            "old": "    elif isinstance(exception, ConvergenceError):\n        stats[\"convergence_error\"] = True",
            "new": "    elif isinstance(exception, ConvergenceError):\n        stats[\"convergence_error\"] = False",
            "cases": ["transition/static"], "what": "solver failure not recorded in the statistics",
        },
        "dynamic_nan_energy_kept": {
            "module": "mici.transitions",
            "old": "                h = np.inf if np.isnan(h) else h",
            "new": "                h = -1e3 if np.isnan(h) else h",
            "cases": ["transition/multinomial/energies"], "what": "NaN energy turned into a very favourable one",
        },
        "fixed_point_returns_unconverged": {
            "module": "mici.solvers",
            "old": "            if error < convergence_tol:\n                return x\n            x0 = x\n    except (ValueError, LinAlgError) as e:\n        # Make robust to errors in intermediate linear algebra ops\n        msg = f\"{type(e)} at iteration {i} of fixed point solver ({e}).\"\n        raise ConvergenceError(msg) from e\n    msg = f\"Fixed point iteration did not converge. Last error={error:.1e}.\"\n    raise ConvergenceError(msg)\n\n\ndef solve_fixed_point_steffensen",
            "new": "            if error < convergence_tol:\n                return x\n            x0 = x\n    except (ValueError, LinAlgError) as e:\n        # Make robust to errors in intermediate linear algebra ops\n        msg = f\"{type(e)} at iteration {i} of fixed point solver ({e}).\"\n        raise ConvergenceError(msg) from e\n    return x\n\n\ndef solve_fixed_point_steffensen",
            "cases": ["fixed_point/solve_fixed_point_direct"], "what": "direct solver returns the last iterate instead of raising when max_iters is exhausted",
        },
        "solver_lets_valueerror_escape": {
            "module": "mici.solvers",
            "old": "    except (ValueError, LinAlgError) as e:\n        # Make robust to errors in intermediate linear algebra ops\n        msg = f\"{type(e)} at iteration {i} of quasi-Newton solver ({e}).\"",
            "new": "    except LinAlgError as e:\n        # Make robust to errors in intermediate linear algebra ops\n        msg = f\"{type(e)} at iteration {i} of quasi-Newton solver ({e}).\"",
            "cases": ["projection/solve_projection_onto_manifold_quasi_newton"], "what": "ValueError from the constraint function escapes the quasi-Newton solver",
        },
    },
    "C09": {
        "assignment_does_not_invalidate": {
            "module": "mici.states",
            "old": "            for dep in self._dependencies[name]:\n                self._cache[dep] = None",
            "new": "            for dep in self._dependencies[name]:\n                pass",
            "cases": ["euclid/plain/h0"], "what": "assigning a state variable leaves dependent cache entries valid",
        },
        "gauss_dh2_dpos_cached_on_mom": {
            "module": "mici.systems",
            "old": "    def dh2_dpos(self, state: ChainState) -> ArrayLike:\n        return state.pos.copy()",
            "new": "    @cache_in_state(\"mom\")\n    def dh2_dpos(self, state: ChainState) -> ArrayLike:\n        return state.pos.copy()",
            "cases": ["gauss/plain/h0"], "what": "the original defect: dependency declared on the wrong variable",
        },
        "cache_key_ignores_system_identity": {
            "module": "mici.states",
            "old": "    return (f\"{type(system).__name__}.{method}\", id(system))",
            "new": "    return (f\"{type(system).__name__}.{method}\", 0)",
            "cases": ["euclid/two_systems"], "what": "two system objects of one class share cache entries of a common state",
        },
    },
    "C18": {
        "copy_drops_cache": {
            "module": "mici.states",
            "old": "            _cache=self._cache.copy(),",
            "new": "            _cache={},",
            "cases": ["hist/euclid/plain"], "what": "copies start with an empty cache (recomputation after every copy)",
        },
        "auxiliary_outputs_not_stored": {
            "module": "mici.states",
            "old": "                    for k, v in zip(keys, vals, strict=False):\n                        state._cache[k] = v",
            "new": "                    state._cache[prim_key] = vals[0]",
            "cases": ["aux/euclid"], "what": "values returned alongside derivatives are thrown away",
        },
    },
    "C19": {
        "scalar_multiply_mutates_operand": {
            "module": "mici.matrices",
            "old": "        new_inv_lu = old_inv_lu - (scalar - 1) / scalar * np.triu(old_inv_lu)",
            "new": "        old_inv_lu -= (scalar - 1) / scalar * np.triu(old_inv_lu)\n        new_inv_lu = old_inv_lu",
            "cases": ["inv_lu"], "what": "scalar multiplication updates the operand's LU factor in place",
        },
        "inverse_depends_on_cached_array": {
            "module": "mici.matrices",
            "old": "    def _construct_inv(self) -> DiagonalMatrix:\n        return DiagonalMatrix(1.0 / self.diagonal)",
            "new": "    def _construct_inv(self) -> DiagonalMatrix:\n        return DiagonalMatrix(1.0 / self.diagonal) if self._array is None else DiagonalMatrix(self.diagonal)",
            "cases": ["diagonal"], "what": "a lazily computed attribute depends on which other attribute was computed first",
        },
        "parameters_left_writable": {
            "module": "mici.matrices",
            "old": "            if isinstance(v, np.ndarray):\n                v.flags.writeable = False",
            "new": "            if isinstance(v, np.ndarray):\n                pass",
            "cases": ["pos_diagonal"], "what": "parameter arrays stay writable after construction",
        },
    },
    "C13": {
        "stats_row_ignores_stage_offset": {
            "module": "mici.samplers",
            "old": "                        _update_chain_stats(\n                            sample_index + sampling_index_offset,",
            "new": "                        _update_chain_stats(\n                            sample_index,",
            "cases": ["configs/1", "configs/3", "inductive"], "what": "statistics of later stages overwrite the rows of the first stage",
        },
        "arrays_sized_for_warm_up_when_not_traced": {
            "module": "mici.samplers",
            "old": "        n_trace_iter = n_warm_up_iter + n_main_iter if trace_warm_up else n_main_iter",
            "new": "        n_trace_iter = n_warm_up_iter + n_main_iter",
            "cases": ["configs/4", "configs/5", "configs/6"], "what": "output arrays longer than the number of recorded iterations (fill values survive)",
        },
    },
    "C14": {
        "worker_rng_state_discarded": {
            "module": "mici.samplers",
            "old": "                per_chain_rngs[chain_index].bit_generator.state = (\n                    rng.bit_generator.state\n                )",
            "new": "                pass",
            "cases": ["sched/2x2/1+1/fast"], "what": "the original defect: advanced generator copies of the workers are thrown away (streams replayed per stage)",
        },
        "chains_share_one_stream": {
            "module": "mici.samplers",
            "old": "        return [default_rng(bit_generator.jumped(i)) for i in range(n_chain)]",
            "new": "        return [default_rng(bit_generator.jumped(0)) for i in range(n_chain)]",
            "cases": ["sched/2x2/0+2/fast"], "what": "all chains are driven by the same random sub-stream",
        },
    },
    "C15": {
        "sequential_continues_after_interrupt": {
            "module": "mici.samplers",
            "old": "        if isinstance(exception, KeyboardInterrupt):\n            break\n    return (*_collate_chain_outputs(chain_outputs), exception)",
            "new": "        if isinstance(exception, KeyboardInterrupt):\n            pass\n    return (*_collate_chain_outputs(chain_outputs), exception)",
            "cases": ["interrupt/p1/warmup/2+2"], "what": "remaining chains are still sampled after an interrupt",
        },
        "later_stages_started_after_interrupt": {
            "module": "mici.samplers",
            "old": "                    if isinstance(exception, KeyboardInterrupt):\n                        return MCMCSampleChainsOutputs(chain_states, traces, stats)",
            "new": "                    if isinstance(exception, KeyboardInterrupt):\n                        pass",
            "cases": ["interrupt/p1/warmup/2+2"], "what": "the main stage runs although warm-up was interrupted",
        },
    },
    "C04": {
        "line_search_step_mismatch": {
            "module": "mici.solvers",
            "old": "                if new_error < error or j == max_line_search_iters - 1:\n                    break",
            "new": "                if new_error < error:\n                    break",
            "cases": ["contract/line_search"], "what": "the original defect: exhausted line search halves the step once more than the position moved",
        },
        "newton_returns_on_position_only": {
            "module": "mici.solvers",
            "old": "            if error < constraint_tol and norm(delta_pos) < position_tol:\n                state.mom -= np.sign(time_step) * dh2_flow_mom_dmom @ mu\n                return state\n            mu += delta_mu\n            state.pos -= delta_pos\n    except (ValueError, LinAlgError) as e:\n        # Make robust to errors in intermediate linear algebra ops\n        msg = f\"{type(e)} at iteration {i} of Newton solver ({e}).\"",
            "new": "            if norm(delta_pos) < position_tol:\n                state.mom -= np.sign(time_step) * dh2_flow_mom_dmom @ mu\n                return state\n            mu += delta_mu\n            state.pos -= delta_pos\n    except (ValueError, LinAlgError) as e:\n        # Make robust to errors in intermediate linear algebra ops\n        msg = f\"{type(e)} at iteration {i} of Newton solver ({e}).\"",
            "cases": ["contract/newton"], "what": "Newton solver returns when the position update is small regardless of the residual",
        },
        "momentum_correction_sign": {
            "module": "mici.solvers",
            "old": "                state.mom -= np.sign(time_step) * dh2_flow_mom_dmom @ mu\n                return state\n            mu += delta_mu\n            state.pos -= delta_pos\n    except (ValueError, LinAlgError) as e:\n        # Make robust to errors in intermediate linear algebra ops\n        msg = f\"{type(e)} at iteration {i} of quasi-Newton solver ({e}).\"",
            "new": "                state.mom -= dh2_flow_mom_dmom @ mu\n                return state\n            mu += delta_mu\n            state.pos -= delta_pos\n    except (ValueError, LinAlgError) as e:\n        # Make robust to errors in intermediate linear algebra ops\n        msg = f\"{type(e)} at iteration {i} of quasi-Newton solver ({e}).\"",
            "cases": ["contract/quasi_newton"], "what": "momentum correction ignores the sign of the time step",
        },
        "projection_transposed_jacobian_missing": {
            "module": "mici.systems",
            "old": "        mom -= self.jacob_constr(state).T @ (",
            "new": "        mom -= 0.5 * self.jacob_constr(state).T @ (",
            "cases": ["projection/constr/diag/sphere"], "what": "cotangent projection removes only half of the normal component",
        },
    },
    "C16": {
        "slow_stage_budget_off_by_final": {
            "module": "mici.stagers",
            "old": "            n_slow_stage_iter = (\n                n_warm_up_iter - n_init_fast_stage_iter - n_final_fast_stage_iter\n            )",
            "new": "            n_slow_stage_iter = (\n                n_warm_up_iter - n_init_fast_stage_iter\n            )",
            "cases": ["windowed/mult2.0"], "what": "slow stages also consume the final fast stage's iterations: warm-up total exceeds the request",
        },
        "slow_adapters_in_fast_stage": {
            "module": "mici.stagers",
            "old": "            sampling_stages[\"Final fast adaptive\"] = ChainStage(\n                n_iter=n_final_fast_stage_iter,\n                adapters=fast_adapters,",
            "new": "            sampling_stages[\"Final fast adaptive\"] = ChainStage(\n                n_iter=n_final_fast_stage_iter,\n                adapters=adapters,",
            "cases": ["windowed/mult2.0"], "what": "slow adapters active in the final fast stage",
        },
        "zero_length_stage_runs_adapters": {
            "module": "mici.samplers",
            "old": "                    if stage.n_iter == 0:\n",
            "new": "                    if stage.n_iter < 0:\n",
            "cases": ["sampler/windowed/slowTrue/chains1"], "what": "the original defect: zero-length stages initialise and finalise adapters",
        },
    },
    "C17": {
        "dual_averaging_error_weight": {
            "module": "mici.adapters",
            "old": "        error_weight = 1 / (self.iter_offset + adapt_state[\"iter\"])",
            "new": "        error_weight = 1 / (self.iter_offset + adapt_state[\"iter\"] + 1)",
            "cases": ["dual/single"], "what": "off-by-one in the dual-averaging error weight",
        },
        "variance_merge_weight": {
            "module": "mici.adapters",
            "old": "                        mean_diff**2 * (adapt_state[\"iter\"] * n_iter_prev) / n_iter\n                    )\n        if n_iter < 2:  # noqa: PLR2004\n            msg = \"At least two chain samples required to compute a variance estimates.\"\n            raise AdaptationError(msg)\n        var_est /= n_iter - 1",
            "new": "                        mean_diff**2 * (adapt_state[\"iter\"] * n_iter_prev) / (n_iter + 1)\n                    )\n        if n_iter < 2:  # noqa: PLR2004\n            msg = \"At least two chain samples required to compute a variance estimates.\"\n            raise AdaptationError(msg)\n        var_est /= n_iter - 1",
            "cases": ["var/dim1/n3/g0"], "what": "wrong weight when merging per-chain sums of squares (only visible with unequal chains)",
        },
        "search_returns_without_crossing": {
            "module": "mici.adapters",
            "old": "                if (step_size_too_big and delta_h <= delta_h_threshold) or (",
            "new": "                if (step_size_too_big and delta_h <= 2 * delta_h_threshold) or (",
            "cases": ["search"], "what": "initial search threshold inconsistent between the two directions",
        },
        "momentum_not_refreshed": {
            "module": "mici.adapters",
            "old": "        transition.system.metric = PositiveDiagonalMatrix(var_est).inv\n        # Resample momentum to account for altered distribution due to new metric\n        for chain_state, rng in zip(chain_states, rngs, strict=True):",
            "new": "        transition.system.metric = PositiveDiagonalMatrix(var_est).inv\n        # Resample momentum to account for altered distribution due to new metric\n        for chain_state, rng in zip(chain_states[:0], rngs[:0], strict=True):",
            "cases": ["var/dim1/n2/g0"], "what": "momenta keep their old distribution after the metric changed",
        },
    },
}
