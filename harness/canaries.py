"""Canary mutants: in-memory source mutations of mici modules that each harness must refute.
Kept free of mici imports so the worker can install the mutation before mici is imported.
Each entry: module, old, new (exact source substrings), cases (names of harness cases to run), what."""

CANARIES = {
    "C10": {
        "invtri_transpose_flag": {
            "module": "mici.matrices",
            "old": "        return InverseTriangularMatrix(\n            self._inverse_array.T,\n            lower=not self.lower,",
            "new": "        return InverseTriangularMatrix(\n            self._inverse_array.T,\n            lower=self.lower,",
            "cases": ["leaf/invtri_lower/n2/unary"], "what": "transpose of an inverse-triangular matrix keeps the wrong triangle flag",
        },
        "diag_left_multiply_axis": {
            "module": "mici.matrices",
            "old": "            return self.diagonal[:, None] * other",
            "new": "            return self.diagonal[None, :] * other",
            "cases": ["leaf/diagonal/n2/base"], "what": "DiagonalMatrix @ 2-D array scales columns instead of rows",
        },
        "lowrank_logdet_drops_inner": {
            "module": "mici.matrices",
            "old": "            self.square_matrix.log_abs_det\n            + self.inner_square_matrix.log_abs_det\n",
            "new": "            self.square_matrix.log_abs_det\n",
            "cases": ["leaf/lowrank_square/n2/base"], "what": "matrix determinant lemma without the inner-matrix term",
        },
        "scaled_orth_inverse_not_transposed": {
            "module": "mici.matrices",
            "old": "        return ScaledOrthogonalMatrix(1 / self._scalar, self._orth_array.T)\n\n    def _compute_hash",
            "new": "        return ScaledOrthogonalMatrix(1 / self._scalar, self._orth_array)\n\n    def _compute_hash",
            "cases": ["leaf/scaled_orthogonal/n2/base"], "what": "inverse of a scaled orthogonal matrix forgets the transpose",
        },
        "woodbury_downdate_sign": {
            "module": "mici.matrices",
            "old": "                self.inner_square_matrix.inv.array\n                + self._sign\n                * (",
            "new": "                self.inner_square_matrix.inv.array\n                + (",
            "cases": ["leaf/lowrank_square_neg/n2/base"], "what": "capacitance matrix ignores sign=-1 (the defect fixed in /repo)",
        },
    },
    "C11": {
        "trifact_grad_spurious_sign": {
            "module": "mici.matrices",
            "old": "            -2 * np.outer(inv_vector, inv_factor_vector),",
            "new": "            -2 * self.sign * np.outer(inv_vector, inv_factor_vector),",
            "cases": ["grad/trifact_neg_lower/n2"], "what": "the original spurious sign factor (fixed in /repo)",
        },
        "diag_grad_quadratic_form": {
            "module": "mici.matrices",
            "old": "        return -((self.inv @ vector) ** 2)",
            "new": "        return -(self.inv @ vector**2)",
            "cases": ["grad/diagonal/n2"], "what": "gradient of v^T D^-1 v with the square in the wrong place",
        },
        "lowrank_grad_logdet_factor": {
            "module": "mici.matrices",
            "old": "        return (\n            2\n            * self._sign\n            * (self.inv @ (self.factor_matrix.array @ self.inner_pos_def_matrix))",
            "new": "        return (\n            1\n            * self._sign\n            * (self.inv @ (self.factor_matrix.array @ self.inner_pos_def_matrix))",
            "cases": ["grad/lowrank_pd/n2"], "what": "low-rank log-determinant gradient off by a factor 2",
        },
    },
    "C05": {
        "riemannian_dh2_dpos_half": {
            "module": "mici.systems",
            "old": "        return 0.5 * vjp_metric(self.metric(state).grad_quadratic_form_inv(state.mom))",
            "new": "        return vjp_metric(self.metric(state).grad_quadratic_form_inv(state.mom))",
            "cases": ["system/diagonal/2/plain"], "what": "Riemannian dh2_dpos loses its factor 1/2",
        },
        "gauss_dh_dpos_omits_h2": {
            "module": "mici.systems",
            "old": "        return self.dh1_dpos(state) + self.dh2_dpos(state)\n\n    def h2_flow(self, state: ChainState, dt: ScalarLike) -> None:\n        omega",
            "new": "        return self.dh1_dpos(state)\n\n    def h2_flow(self, state: ChainState, dt: ScalarLike) -> None:\n        omega",
            "cases": ["system/gauss/2/diag/plain"], "what": "Gaussian-split dh_dpos without the h2 term (the defect fixed in /repo)",
        },
        "constrained_h1_missing_gram": {
            "module": "mici.systems",
            "old": "        return self.neg_log_dens(state) + self.log_det_sqrt_gram(state)",
            "new": "        return self.neg_log_dens(state) + 2 * self.log_det_sqrt_gram(state)",
            "cases": ["system/constr/2/diag/sphere/False/plain"], "what": "Gram log-determinant correction doubled",
        },
    },
    "C07": {
        "gauss_flow_sign": {
            "module": "mici.systems",
            "old": "            cos_omega_dt * eigvec_trans_mom - (sin_omega_dt / omega) * eigvec_trans_pos",
            "new": "            cos_omega_dt * eigvec_trans_mom + (sin_omega_dt / omega) * eigvec_trans_pos",
            "cases": ["flow/gauss/2/diag"], "what": "Gaussian-split rotation with the wrong sign",
        },
        "h1_flow_sign": {
            "module": "mici.systems",
            "old": "        state.mom -= dt * self.dh1_dpos(state)",
            "new": "        state.mom += dt * self.dh1_dpos(state)",
            "cases": ["flow/euclid/1/diag"], "what": "h1 flow kicks the momentum the wrong way",
        },
        "gauss_dmom_block": {
            "module": "mici.systems",
            "old": "                sin_omega_dt * omega,\n            ),",
            "new": "                sin_omega_dt / omega,\n            ),",
            "cases": ["flow_dmom/gauss_constr/2/diag"], "what": "dh2_flow_dmom position block uses 1/omega instead of omega",
        },
    },
    "C08": {
        "correlated_coefficient": {
            "module": "mici.transitions",
            "old": "            state.mom *= (1.0 - self.mom_resample_coeff**2) ** 0.5",
            "new": "            state.mom *= (1.0 - self.mom_resample_coeff) ** 0.5",
            "cases": ["correlated/euclid/2/diag"], "what": "partial refreshment with sqrt(1-c) instead of sqrt(1-c^2)",
        },
        "projection_without_inverse_metric": {
            "module": "mici.systems",
            "old": "            self.inv_gram(state) @ (self.jacob_constr(state) @ (self.metric.inv @ mom))",
            "new": "            self.inv_gram(state) @ (self.jacob_constr(state) @ mom)",
            "cases": ["momentum/constr/2/diag/linear"], "what": "cotangent projection forgets M^-1",
        },
        "riemannian_sample_uses_inverse": {
            "module": "mici.systems",
            "old": "        return self.metric(state).sqrt @ rng.normal(size=state.pos.shape)",
            "new": "        return self.metric(state).inv.sqrt @ rng.normal(size=state.pos.shape)",
            "cases": ["momentum/diagonal/2"], "what": "Riemannian momenta drawn with the inverse metric as covariance",
        },
    },
}
