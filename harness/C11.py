"""C11 - differentiable matrices report the true parameter gradients.

Code side: the real ``grad_log_abs_det`` / ``grad_quadratic_form_inv`` run on z3-valued
object arrays.  Reference side: the harness's own dense 1x1/2x2/3x3 determinant and
adjugate formulas evaluated on *dual numbers* in the parameter (one tangent per free
parameter entry); in the concrete replay the reference is a central finite difference
of the dense float formulas.
"""
from __future__ import annotations

import numpy as np
import z3

import symx.stubs as stubs
from symx.core import SV, cur, valid
from symx.dual import D, value
from symx.eqcheck import Item, Skip, run_problem, replay_problem
from symx.harness import Case
from harness import matlib as ml

stubs.install(np_modules=())
import mici.matrices as M  # noqa: E402

META = {
    "level": "model_checking",
    "technique": "symbolic execution of mici.matrices gradients on z3 reals; reference by dual numbers over explicit dense "
                 "formulas; z3 refutes inequality per entry",
    "explanation": "bounded SMT check: all parameter values and the vector symbolic; sizes 1-2 (blocks 3)",
    "bounds": {"quick": {"sizes": [1, 2]}, "thorough": {"sizes": [1, 2]}},
    "outside": "sizes > 2 (block-diagonal reaches 3); SoftAbs with a non-diagonal eigenbasis is checked for rotations of a "
               "diagonal matrix only; round-off",
    "stubs": ["scipy.linalg.solve_triangular/lu_*", "numpy.linalg.cholesky", "numpy.linalg.eigh (registered decomposition)",
              "TANH/SINH/COSH uninterpreted with cosh^2-sinh^2=1, tanh*cosh=sinh, sign axioms"],
    "assumptions": ["denominators recorded during execution are non-zero, except in the explicit 'denominator can vanish' "
                    "obligations for SoftAbs (repeated eigenvalues are inside the documented domain)"],
}


# ------------------------------------------------------------------ kinds
def _free_all(shape):
    return [idx for idx in np.ndindex(*shape)]


def _tri_idx(n, lower):
    return [(i, j) for i in range(n) for j in range(n) if (j <= i if lower else j >= i)]


def kinds(n):
    ks = ["scaled_identity", "pos_scaled_identity", "diagonal", "pos_diagonal",
          "trifact_pos_lower", "trifact_neg_lower", "trifact_pos_upper", "trifact_neg_upper", "trifact_pd_lower", "trifact_pd_upper",
          "dense_def_pos", "dense_def_neg", "dense_pd", "dense_pd_product", "dense_pd_product_inner",
          "blockdiag_pd", "lowrank_pd", "lowrank_pd_neg", "lowrank_pd_inner", "softabs_diag"]
    if n == 2:
        ks.append("softabs_rot")
    return ks


class Spec:
    """parameter theta (flat list of free entries), builder of the mici object, dense formula."""


def build(mk, kind, n):
    """Returns (theta0 list of scalars, names, make(theta)->matrix obj, dense(theta)->array, shape_fn(grad)->flat list)."""
    sp = Spec()
    p = "p"
    if kind in ("scaled_identity", "pos_scaled_identity"):
        s = mk.pos(p + "_s") if kind.startswith("pos") else mk.nonzero(p + "_s")
        sp.theta = [s]
        cls = M.PositiveScaledIdentityMatrix if kind.startswith("pos") else M.ScaledIdentityMatrix
        sp.make = lambda th: cls(th[0], n)
        sp.dense = lambda th: th[0] * ml.eye(mk, n)
        sp.flat = lambda g: [g]
        return sp
    if kind in ("diagonal", "pos_diagonal"):
        d = mk.arr(p + "_d", n, "pos" if kind.startswith("pos") else "nonzero")
        sp.theta = list(d)
        cls = M.PositiveDiagonalMatrix if kind.startswith("pos") else M.DiagonalMatrix
        sp.make = lambda th: cls(_arr(mk, th, (n,)))
        sp.dense = lambda th: _diag(mk, th)
        sp.flat = lambda g: list(g)
        return sp
    if kind.startswith("trifact"):
        lower = not kind.endswith("upper")
        idx = _tri_idx(n, lower)
        T = ml.lower_tri(mk, p + "_t", n, posdiag=False)
        T = T if lower else T.T
        sp.theta = [T[i] for i in idx]
        sign = -1 if "neg" in kind else 1

        def mat(th):
            A = ml.zeros(mk, (n, n)) if not _is_dual(th) else np.zeros((n, n), dtype=object)
            for k, ij in enumerate(idx):
                A[ij] = th[k]
            return A
        if "pd" in kind:
            sp.make = lambda th: M.TriangularFactoredPositiveDefiniteMatrix(mat(th), factor_is_lower=lower)
        else:
            sp.make = lambda th: M.TriangularFactoredDefiniteMatrix(mat(th), sign=sign, factor_is_lower=lower)
        sp.dense = lambda th: sign * (mat(th) @ mat(th).T)
        sp.flat = lambda g: [g[ij] for ij in idx]
        sp.zero_outside = (n, idx)
        return sp
    if kind in ("dense_def_pos", "dense_def_neg", "dense_pd"):
        A, L = ml.spd(mk, p + "_l", n)
        sg = -1 if kind.endswith("neg") else 1
        A = sg * A
        idx = _free_all((n, n))
        sp.theta = [A[ij] for ij in idx]

        def mat(th):
            B = np.zeros((n, n), dtype=object if (mk.symbolic or _is_dual(th)) else float)
            for k, ij in enumerate(idx):
                B[ij] = th[k]
            return B
        if kind == "dense_pd":
            sp.make = lambda th: M.DensePositiveDefiniteMatrix(mat(th))
        else:
            sp.make = lambda th: M.DenseDefiniteMatrix(mat(th), is_posdef=(sg == 1))
        sp.dense = mat
        sp.flat = lambda g: [g[ij] for ij in idx]
        return sp
    if kind in ("dense_pd_product", "dense_pd_product_inner"):
        R = ml.zeros(mk, (n, n + 1))
        R[:, :n] = ml.lower_tri(mk, p + "_r", n, posdiag=False)
        for i in range(n):
            R[i, n] = mk.real(f"{p}_rc_{i}")
        idx = _free_all((n, n + 1))
        sp.theta = [R[ij] for ij in idx]
        dd = mk.arr(p + "_pd", n + 1, "pos") if kind.endswith("inner") else None

        def mat(th):
            B = np.zeros((n, n + 1), dtype=object if (mk.symbolic or _is_dual(th)) else float)
            for k, ij in enumerate(idx):
                B[ij] = th[k]
            return B
        sp.make = lambda th: M.DensePositiveDefiniteProductMatrix(mat(th), None if dd is None else M.PositiveDiagonalMatrix(dd))
        sp.dense = lambda th: mat(th) @ (np.diag(dd) if dd is not None else ml.eye(mk, n + 1)) @ mat(th).T
        sp.flat = lambda g: [g[ij] for ij in idx]
        return sp
    if kind == "blockdiag_pd":
        s = mk.pos(p + "_s")
        lower = True
        idx = _tri_idx(n, lower)
        T = ml.lower_tri(mk, p + "_t", n, posdiag=False)
        sp.theta = [s] + [T[ij] for ij in idx]

        def mat(th):
            A = np.zeros((n, n), dtype=object if (mk.symbolic or _is_dual(th)) else float)
            for k, ij in enumerate(idx):
                A[ij] = th[1 + k]
            return A

        def dense(th):
            R = np.zeros((n + 1, n + 1), dtype=object if (mk.symbolic or _is_dual(th)) else float)
            R[0, 0] = th[0]
            R[1:, 1:] = mat(th) @ mat(th).T
            return R
        sp.make = lambda th: M.PositiveDefiniteBlockDiagonalMatrix(
            (M.PositiveScaledIdentityMatrix(th[0], 1), M.TriangularFactoredPositiveDefiniteMatrix(mat(th), factor_is_lower=True)))
        sp.dense = dense
        sp.flat = lambda g: [g[0]] + [g[1][ij] for ij in idx]
        sp.tuple_len = 2
        return sp
    if kind.startswith("lowrank_pd"):
        k = 1
        neg = kind.endswith("_neg")
        sign = -1 if neg else 1
        F = mk.arr(p + "_f", (n, k))
        d = mk.arr(p + "_sq", n, "pos")
        kk = mk.arr(p + "_in", k, "pos") if (kind.endswith("inner") or neg) else None
        idx = _free_all((n, k))
        sp.theta = [F[ij] for ij in idx]

        def mat(th):
            B = np.zeros((n, k), dtype=object if (mk.symbolic or _is_dual(th)) else float)
            for q, ij in enumerate(idx):
                B[ij] = th[q]
            return B
        Kd = np.diag(kk) if kk is not None else ml.eye(mk, k)
        sp.dense = lambda th: np.diag(d) + sign * (mat(th) @ Kd @ mat(th).T)
        if neg:
            dn = sp.dense(sp.theta)
            for m_ in range(1, n + 1):
                mk.require(ml.det(dn[:m_, :m_]) > 0)
        sp.make = lambda th: M.PositiveDefiniteLowRankUpdateMatrix(
            M.DenseRectangularMatrix(mat(th)), M.PositiveDiagonalMatrix(d),
            None if kk is None else M.PositiveDiagonalMatrix(kk), sign=sign)
        sp.flat = lambda g: [g[ij] for ij in idx]
        return sp
    raise KeyError(kind)


def _is_dual(th):
    return any(isinstance(x, D) for x in th)


def _arr(mk, th, shape):
    a = np.empty(shape, dtype=object if (mk.symbolic or _is_dual(th)) else float)
    for k, idx in enumerate(np.ndindex(*shape)):
        a[idx] = th[k]
    return a


def _diag(mk, th):
    n = len(th)
    a = np.zeros((n, n), dtype=object if (mk.symbolic or _is_dual(th)) else float)
    for i in range(n):
        a[i, i] = th[i]
    return a


# ------------------------------------------------------------------ reference derivatives
def ref_grads(mk, sp, v):
    """d log|det dense| / d theta_k and d (v^T dense^-1 v) / d theta_k for every free entry."""
    th0 = sp.theta
    K = len(th0)
    if mk.symbolic:
        D.K = K
        th = []
        for k, x in enumerate(th0):
            t = [SV(0)] * K
            t[k] = SV(1)
            th.append(D(SV.lift(x), t))
        A = sp.dense(th)
        dt = D.lift(ml.det(A))
        g1 = [dt.t[k] / dt.v for k in range(K)]
        q = D.lift(v @ (ml.inv(A) @ v))
        g2 = [q.t[k] for k in range(K)]
        return g1, g2
    h = 1e-6
    g1, g2 = [], []
    for k in range(K):
        vals = []
        for sgn in (1, -1):
            th = list(th0)
            th[k] = th[k] + sgn * h
            A = np.asarray(sp.dense(th), dtype=float)
            vals.append((np.log(abs(np.linalg.det(A))), v @ np.linalg.solve(A, v)))
        g1.append((vals[0][0] - vals[1][0]) / (2 * h))
        g2.append((vals[0][1] - vals[1][1]) / (2 * h))
    return g1, g2


def prob_grad(mk, kind, n):
    if kind.startswith("softabs"):
        return prob_softabs(mk, kind, n)
    sp = build(mk, kind, n)
    obj = sp.make(sp.theta)
    R = sp.dense(sp.theta)
    v = mk.arr("v", R.shape[0])
    g1, g2 = ref_grads(mk, sp, v)
    c1 = obj.grad_log_abs_det
    c2 = obj.grad_quadratic_form_inv(v)
    items = []
    f1, f2 = sp.flat(c1), sp.flat(c2)
    for k in range(len(sp.theta)):
        items.append(Item(f"{kind}.grad_log_abs_det[{k}]", f1[k], g1[k]))
        items.append(Item(f"{kind}.grad_quadratic_form_inv[{k}]", f2[k], g2[k]))
    # structure: same shape as the parameter, zeros outside the triangle, tuple per block
    if hasattr(sp, "zero_outside"):
        nn, idx = sp.zero_outside
        for g, nm in ((c1, "grad_log_abs_det"), (c2, "grad_quadratic_form_inv")):
            out = [g[i, j] for i in range(nn) for j in range(nn) if (i, j) not in idx]
            if out:
                items.append(Item(f"{kind}.{nm} zero outside triangle", np.array(out, dtype=object if mk.symbolic else float),
                                  np.zeros(len(out), dtype=object if mk.symbolic else float) if not mk.symbolic
                                  else np.array([SV(0)] * len(out), dtype=object)))
    if hasattr(sp, "tuple_len"):
        ok = isinstance(c1, tuple) and isinstance(c2, tuple) and len(c1) == sp.tuple_len and len(c2) == sp.tuple_len
        items.append(Item(f"{kind} gradients are tuples per block", ok if not mk.symbolic else z3.BoolVal(ok), None, kind="true"))
    return items


# ------------------------------------------------------------------ SoftAbs
def _softabs(mk, x, a):
    if mk.symbolic:
        return x / (x * a).tanh()
    return x / np.tanh(x * a)


def prob_softabs(mk, kind, n, repeated=False):
    """S = Q diag(lam) Q^T (Q = I for softabs_diag).  Reference: the matrix is the spectral function
    softabs(S); its log-determinant and inverse quadratic form are differentiated through the closed-form
    eigen-decomposition of a symmetric 2x2 (1x1: scalar function) on dual numbers in the *entries* of S."""
    a = mk.pos("alpha")
    lam = mk.arr("lam", n, "nonzero")
    if n == 2 and not repeated:
        mk.require(lam[0] < lam[1])  # distinct, in eigh's ascending order (the repeated case has its own obligations)
    if kind == "softabs_rot":
        Q = ml.orth(mk, "q", n)
    else:
        Q = ml.eye(mk, n)
    S = Q @ _diag(mk, list(lam)) @ Q.T
    if mk.symbolic and n == 2:
        stubs.register_eigh(S, lam, Q, mk.assume)
    v = mk.arr("v", n)
    obj = M.SoftAbsRegularizedPositiveDefiniteMatrix(S, a)
    c1 = obj.grad_log_abs_det
    c2 = obj.grad_quadratic_form_inv(v)
    items = []
    if n == 1:
        # f1(s) = log softabs(s), f2(s) = v^2 / softabs(s)
        if mk.symbolic:
            D.K = 1
            s = D(SV.lift(S[0, 0]), [SV(1)])
            sa = s / (s * a).tanh()
            f1 = sa.log()
            f2 = (v[0] * v[0]) / sa
            g1, g2 = f1.t[0], f2.t[0]
        else:
            h = 1e-6
            s0 = float(S[0, 0])
            fa = lambda s: (np.log(s / np.tanh(s * a)), v[0] ** 2 / (s / np.tanh(s * a)))
            g1 = (fa(s0 + h)[0] - fa(s0 - h)[0]) / (2 * h)
            g2 = (fa(s0 + h)[1] - fa(s0 - h)[1]) / (2 * h)
        items.append(Item(f"{kind}.grad_log_abs_det[0]", c1[0, 0], g1))
        items.append(Item(f"{kind}.grad_quadratic_form_inv[0]", c2[0, 0], g2))
        return items
    # n == 2: directional derivatives along the symmetric basis E_aa, E_cc, E_b (b = both off-diagonals)
    if mk.symbolic:
        D.K = 3
        A_, B_, C_ = (D(SV.lift(S[0, 0]), [SV(1), SV(0), SV(0)]), D(SV.lift(S[0, 1]), [SV(0), SV(1), SV(0)]),
                      D(SV.lift(S[1, 1]), [SV(0), SV(0), SV(1)]))
        half = (A_ + C_) / 2
        # discriminant root: ((a-c)/2)^2 + b^2 = ((lam1-lam0)/2)^2 at the expansion point (positive by the ordering)
        disc = ((A_ - C_) / 2) * ((A_ - C_) / 2) + B_ * B_
        r0 = (SV.lift(lam[1]) - SV.lift(lam[0])) / 2
        root = D(r0, [t / (2 * r0) for t in disc.t])
        lo, hi = half - root, half + root
        sal, sah = lo / (lo * a).tanh(), hi / (hi * a).tanh()
        f1 = sal.log() + sah.log()
        # spectral projectors
        vSv = v[0] * v[0] * A_ + 2 * v[0] * v[1] * B_ + v[1] * v[1] * C_
        vv = v[0] * v[0] + v[1] * v[1]
        ph = (vSv - lo * vv) / (hi - lo)
        pl = (hi * vv - vSv) / (hi - lo)
        f2 = ph / sah + pl / sal
        g1 = [f1.t[0], f1.t[1], f1.t[2]]
        g2 = [f2.t[0], f2.t[1], f2.t[2]]
    else:
        h = 1e-6
        S0 = np.asarray(S, dtype=float)

        def fa(Sm):
            w, U = np.linalg.eigh(Sm)
            sa = w / np.tanh(w * a)
            return np.sum(np.log(sa)), np.sum((U.T @ v) ** 2 / sa)
        E = [np.array([[1., 0.], [0., 0.]]), np.array([[0., 1.], [1., 0.]]), np.array([[0., 0.], [0., 1.]])]
        g1 = [(fa(S0 + h * e)[0] - fa(S0 - h * e)[0]) / (2 * h) for e in E]
        g2 = [(fa(S0 + h * e)[1] - fa(S0 - h * e)[1]) / (2 * h) for e in E]
    for nm, c, g in (("grad_log_abs_det", c1, g1), ("grad_quadratic_form_inv", c2, g2)):
        items.append(Item(f"{kind}.{nm}[aa]", c[0, 0], g[0]))
        items.append(Item(f"{kind}.{nm}[ab+ba]", c[0, 1] + c[1, 0], g[1]))
        items.append(Item(f"{kind}.{nm}[cc]", c[1, 1], g[2]))
        items.append(Item(f"{kind}.{nm} symmetric", c[0, 1], c[1, 0]))
    return items


def prob_softabs_repeated(mk, kind="softabs_diag", n=2):
    """Repeated eigenvalues are inside the documented domain: the gradient must be finite and equal
    the limit (here: lam0 == lam1 == l, S = l*I, where the matrix function is softabs(l)*I and the
    gradient of v^T M^-1 v w.r.t. S is -(softabs'(l)/softabs(l)^2) v v^T)."""
    a = mk.pos("alpha")
    l = mk.nonzero("lam")
    S = _diag(mk, [l, l])
    v = mk.arr("v", 2)
    obj = M.SoftAbsRegularizedPositiveDefiniteMatrix(S, a)
    c2 = obj.grad_quadratic_form_inv(v)
    c1 = obj.grad_log_abs_det
    if mk.symbolic:
        D.K = 1
        s = D(SV.lift(l), [SV(1)])
        sa = s / (s * a).tanh()
        dsa = sa.t[0]
        sav = sa.v
    else:
        h = 1e-6
        f = lambda s: s / np.tanh(s * a)
        dsa = (f(l + h) - f(l - h)) / (2 * h)
        sav = f(l)
    items = []
    ref = -(dsa / (sav * sav)) * np.outer(v, v)
    items.append(Item("softabs repeated eigenvalues: grad_quadratic_form_inv", c2, ref))
    items.append(Item("softabs repeated eigenvalues: grad_log_abs_det", c1, (dsa / sav) * ml.eye(mk, 2)))
    return items


PROBS = {"grad": prob_grad, "softabs_repeated": prob_softabs_repeated}


def run_group(rec, probs):
    rec.encoded(M.DifferentiableMatrix)
    for pname, kw in probs:
        if pname == "softabs_repeated":
            rec.encoded(M.SoftAbsRegularizedPositiveDefiniteMatrix.grad_quadratic_form_inv,
                        M.SoftAbsRegularizedPositiveDefiniteMatrix.grad_log_abs_det)
            _run_repeated(rec, kw)
            continue
        _enc(rec, kw["kind"])
        run_problem(rec, PROBS[pname], kw, key_prefix=f"{pname}/{kw['kind']}/n{kw['n']}:", timeout_ms=60000)


def _run_repeated(rec, kw):
    """Zero denominators count here: explore with a Ctx whose recorded denominators are *not* assumed non-zero;
    a division by a term that the documented domain allows to vanish is a NaN in floating point."""
    from symx.core import explore, Abort
    from symx.eqcheck import CtxSymMk

    def fn(ctx):
        mk = CtxSymMk()
        try:
            items = prob_softabs_repeated(mk, **kw)
        except ZeroDivisionError as e:
            return ("zerodiv", str(e), mk)
        return ("ok", items, mk)

    for res, ctx in explore(fn, max_paths=50):
        rec.path(ctx)
        mk = res[2]
        if res[0] == "zerodiv":
            s = z3.Solver()
            for a_ in mk.assume + ctx.pc + mk.bounds():
                s.add(a_)
            s.check()
            rec.candidate(key="softabs_repeated:zero-denominator", label="division by a syntactically zero denominator "
                          "(0/0 -> NaN) for repeated eigenvalues: " + res[1],
                          payload={"kwargs": kw, "values": mk.values(s.model()), "label": "softabs repeated eigenvalues: "
                                   "grad_quadratic_form_inv", "prob": "softabs_repeated"})
            continue
        rec.reachable(f"path{rec.paths}", ctx.assumptions(), names=mk.names)
        from symx.eqcheck import _discharge
        for it in res[1]:
            _discharge(rec, it, ctx.assumptions(), mk, dict(kw, prob="softabs_repeated"), "softabs_repeated:", 60000, True, True)


def _enc(rec, kind):
    from harness.C10 import _KIND_CLASSES
    best = None
    for pre, cls in _KIND_CLASSES.items():
        if kind.startswith(pre) and (best is None or len(pre) > len(best[0])):
            best = (pre, cls)
    if best:
        c = getattr(M, best[1])
        rec.encoded(c.grad_quadratic_form_inv)
        rec.encoded(c.__dict__.get("grad_log_abs_det", c.grad_log_abs_det))


def cases(tier):
    out = []
    for n in (1, 2):
        for kind in kinds(n):
            out.append(Case(f"grad/{kind}/n{n}", run_group, {"probs": [("grad", {"kind": kind, "n": n})]}, timeout_s=1200))
    out.append(Case("softabs_repeated", run_group, {"probs": [("softabs_repeated", {})]}, timeout_s=600))
    return out


def replay(cand):
    p = cand.get("payload") or {}
    kw = dict(p.get("kwargs", {}))
    name = kw.pop("prob", None) or ("softabs_repeated" if cand["key"].startswith("softabs_repeated") else "grad")
    p["kwargs"] = kw
    cand["payload"] = p
    return replay_problem(PROBS[name], cand, rtol=2e-4)
