"""C12 - numerical failures inside a trajectory are contained as rejections.

Fault schedules are *choice decisions* of the path explorer: at every integrator step and every Hamiltonian evaluation of
the real transition classes (abstract orbit of C01 with concrete weights) a fault may be injected - NaN energy, +inf
energy, ConvergenceError, NonReversibleStepError, or an energy jump above the divergence threshold - up to a bounded number
per transition; every random draw is explored both ways.  Per path: the transition returns, the returned state is the start
state or one produced by a non-faulted step with finite energy, the matching statistics flag is set, accept_stat is 0 when a
flag is set, n_step counts the successful steps, and a following fault-free transition runs.
Solver loops: the real fixed-point and projection solvers against fault oracles (values, NaN, +-inf, ValueError,
LinAlgError chosen per call): a return implies residual below tolerance, every raise is ConvergenceError.
Integrators with failing solvers: only IntegratorError subclasses escape ``step``.
"""
from __future__ import annotations

import math

import numpy as np
import z3

from symx.harness import Case
from symx import weights as W

import mici.transitions as T
import mici.solvers as SO
import mici.integrators as IN
import mici.systems as S
import mici.matrices as M
from mici.states import ChainState
from mici.errors import (ConvergenceError, NonReversibleStepError, IntegratorError, LinAlgError, HamiltonianDivergenceError)

META = {
    "level": "fault_enumeration",
    "technique": "path explorer over fault schedules and random outcomes (choice decisions) driving the real transition / solver / "
                 "integrator code; containment predicates checked on every path (bounded exhaustive enumeration, no sampling)",
    "explanation": "bounded exhaustive fault enumeration; the solver is not needed for the containment predicates, which are "
                   "decided on concrete values per path",
    "bounds": {"quick": {"faults_per_transition": 2, "max_tree_depth": 2, "n_step": 3, "solver_max_iters": 3},
               "thorough": {"faults_per_transition": 2, "max_tree_depth": 3, "n_step": 4, "solver_max_iters": 4}},
    "outside": "exception types other than ValueError / LinAlgError raised by user functions (the documented contract names these "
               "two); more than 2 faults per transition; faults in the momentum resampling step",
    "stubs": ["orbit integrator/system of C01 with concrete weights and fault injection", "scripted generator (both outcomes of every draw)"],
    "assumptions": ["max_iters >= 1"],
}

FAULTS = ["none", "nan", "inf", "conv", "nonrev", "jump"]


class Mom:
    def __init__(self, idxs):
        self.idxs = tuple(sorted(idxs))

    def __add__(s, o):
        if isinstance(o, np.ndarray):
            o = o.item()
        return Mom(s.idxs + o.idxs)

    __radd__ = __add__


WT = {k: math.exp(0.37 * math.sin(1.7 * k) + 0.11 * k) for k in range(-70, 71)}


class Env:
    def __init__(self, ctx, max_faults, kinds):
        self.ctx = ctx
        self.left = max_faults
        self.kinds = kinds
        self.bad_pos = set()  # indices whose energy evaluation was faulted
        self.good = set()
        self.injected = []
        self.nstep_ok = 0
        self.active = True
        self.energy_fault = False  # a non-finite / jumping energy has been returned at a tree leaf
        self.steps_after_energy_fault = 0

    def pick(self, allowed):
        if not self.active or self.left <= 0:
            return "none"
        opts = ["none"] + [f for f in allowed if f in self.kinds]
        k = self.ctx.decide(len(opts))
        if k:
            self.left -= 1
            self.injected.append(opts[k])
        return opts[k]


class FSystem:
    def __init__(self, env):
        self.env = env

    def h(self, state):
        k = int(state.pos)
        f = self.env.pick(["nan", "inf", "jump"])
        if f != "none":
            self.env.energy_fault = True
        if f == "nan":
            self.env.bad_pos.add(k)
            return math.nan
        if f == "inf":
            self.env.bad_pos.add(k)
            return math.inf
        if f == "jump":
            self.env.bad_pos.add(k)
            return -math.log(WT[k]) + 5000.0
        return -math.log(WT[k])


class FIntegrator:
    step_size = 0.5

    def __init__(self, env):
        self.env = env

    def step(self, state):
        f = self.env.pick(["conv", "nonrev"])
        if f == "conv":
            raise ConvergenceError("injected")
        if f == "nonrev":
            raise NonReversibleStepError("injected")
        s = state.copy()
        s.pos = state.pos + state.dir
        s.mom = Mom((int(s.pos),))
        self.env.nstep_ok += 1
        if self.env.energy_fault and self.env.active:
            self.env.steps_after_energy_fault += 1
        self.env.good.add(int(s.pos))
        return s


class CoinF:
    def __init__(self, ctx, p):
        self.ctx, self.p = ctx, p

    def __bool__(self):
        p = float(self.p.val) if hasattr(self.p, "val") else float(self.p)
        if not (p > 0.0):  # includes NaN
            return False
        if p >= 1.0:
            return True
        return self.ctx.decide(2) == 0

    def __rmul__(s, o):
        return o * bool(s)


class UnifF:
    def __init__(self, ctx):
        self.ctx = ctx

    def __lt__(s, p):
        return CoinF(s.ctx, p)


class RngF:
    def __init__(self, ctx, slice_first=False):
        self.ctx = ctx
        self.slice_first = slice_first
        self.n = 0

    def uniform(self):
        self.n += 1
        if self.slice_first and self.n == 1:
            return [0.9, 0.3][self.ctx.decide(2)]
        return UnifF(self.ctx)

    def integers(self, lo, hi):
        return lo + self.ctx.decide(hi - lo)


def crit(system, s1, s2, sum_mom):
    return W.WCtx.cur.decide(2) == 0


def _make(kind, env, depth, n_step):
    sysm, integ = FSystem(env), FIntegrator(env)
    if kind == "static":
        return T.MetropolisStaticIntegrationTransition(sysm, integ, n_step=n_step)
    if kind == "random":
        return T.MetropolisRandomIntegrationTransition(sysm, integ, n_step_range=(1, n_step + 1))
    cls = T.MultinomialDynamicIntegrationTransition if kind == "multinomial" else T.SliceDynamicIntegrationTransition
    return cls(sysm, integ, max_tree_depth=depth, max_delta_h=1000.0, termination_criterion=crit, do_extra_subtree_checks=True)


def case_transition(rec, kind, depth=2, n_step=3, max_faults=2, fault_kinds=None):
    rec.encoded(T.MetropolisIntegrationTransition._sample_n_step, T.DynamicIntegrationTransition.sample,
                T.DynamicIntegrationTransition._build_tree, T._process_integrator_error,
                T.MultinomialDynamicIntegrationTransition._check_divergence, T.SliceDynamicIntegrationTransition._check_divergence)
    kinds = fault_kinds or FAULTS[1:]
    viol = {}
    n_fault_paths = 0

    def fn(ctx):
        env = Env(ctx, max_faults, kinds)
        tr = _make(kind, env, depth, n_step)
        st = ChainState(pos=0, mom=Mom((0,)), dir=1)
        env.good.add(0)
        # the initial energy evaluation is part of the previous iteration's accepted state: fault-free
        env.active = False
        h0 = tr.system.h(st)
        env.active = True
        # (transitions re-evaluate h(state) at the start; allow faults there too except for the very first call)
        first = [True]
        orig_h = tr.system.h

        def h(state):
            if first[0]:
                first[0] = False
                env.active = False
                try:
                    return orig_h(state)
                finally:
                    env.active = True
            return orig_h(state)
        tr.system.h = h
        try:
            out, stats = tr.sample(st, RngF(ctx, slice_first=(kind == "slice")))
        except Exception as e:  # noqa: BLE001
            return ("escape", f"{type(e).__name__}: {e}", env)
        problems = []
        j = int(out.pos)
        if j != 0 and (j not in env.good or j in env.bad_pos):
            problems.append(f"returned state index {j} was not produced by a fault-free step with a fault-free energy (faults {env.injected})")
        if kind in ("static", "random") and j != 0 and ("conv" in env.injected or "nonrev" in env.injected):
            # a Metropolis proposal is the END of the requested trajectory; after an integrator error there is none, and the
            # partially integrated state is not a valid candidate
            problems.append(f"Metropolis transition moved to the partially integrated state {j} after an integrator error (faults {env.injected})")
        if "conv" in env.injected and not stats.get("convergence_error"):
            problems.append("ConvergenceError inside the trajectory not recorded in stats['convergence_error']")
        if "nonrev" in env.injected and not stats.get("non_reversible_step"):
            problems.append("NonReversibleStepError not recorded in stats['non_reversible_step']")
        flagged = stats.get("convergence_error") or stats.get("non_reversible_step") or stats.get("diverging")
        if flagged and not (stats["accept_stat"] == 0):
            problems.append(f"accept_stat = {stats['accept_stat']} although an error flag is set")
        a = stats["accept_stat"]
        if isinstance(a, float) and (math.isnan(a) or a < 0 or a > 1):
            problems.append(f"accept_stat = {a}")
        if kind in ("static", "random") and stats["n_step"] != env.nstep_ok:
            problems.append(f"n_step statistic {stats['n_step']} != successful steps {env.nstep_ok}")
        if kind in ("multinomial", "slice"):
            if "jump" in env.injected and not stats.get("diverging") and not flagged:
                problems.append("energy jump above max_delta_h not recorded as diverging")
            if ("nan" in env.injected or "inf" in env.injected) and not stats.get("diverging") and not flagged:
                problems.append("NaN / infinite energy at a tree leaf not recorded as diverging")
            if env.steps_after_energy_fault:
                problems.append(f"the trajectory kept integrating ({env.steps_after_energy_fault} more steps) after a NaN / infinite / diverging energy")
            if stats["n_step"] > env.nstep_ok:
                problems.append(f"n_step statistic {stats['n_step']} exceeds successful steps {env.nstep_ok}")
        # the chain continues: a following fault-free transition from the returned state runs and stays finite
        env.active = False
        first[0] = True
        try:
            out2, stats2 = tr.sample(out, RngF(ctx, slice_first=(kind == "slice")))
            if not math.isfinite(-math.log(WT[int(out2.pos)])):
                problems.append("non-finite state after the following transition")
        except Exception as e:  # noqa: BLE001
            problems.append(f"following transition raised {type(e).__name__}: {e}")
        return ("ok", problems, env)
    for res, ctx in W.wexplore(fn, max_paths=3000000):
        rec.path()
        rec.decisions += len(ctx.trace)
        tag, info, env = res
        if env.injected:
            n_fault_paths += 1
        if tag == "escape":
            viol.setdefault("escape:" + info.split(":")[0], (info, env.injected, [k for k, _ in ctx.trace]))
        elif info:
            viol.setdefault("contain:" + info[0][:60], (info[0], env.injected, [k for k, _ in ctx.trace]))
    rec.note(f"{rec.paths} paths, {n_fault_paths} with at least one injected fault")
    rec.sample({"transition": kind, "fault_kinds": kinds, "paths": rec.paths, "with_faults": n_fault_paths})
    for k, (msg, inj, script) in viol.items():
        rec.candidate(key=f"{kind}:{k}", label=f"{msg} (faults {inj})",
                      payload={"t": kind, "depth": depth, "n_step": n_step, "max_faults": max_faults, "kinds": kinds, "script": script})
    rec.obligation(f"{kind}: containment predicates hold on all {rec.paths} fault/draw schedules", [], z3.BoolVal(False), syntactic=True)
    if n_fault_paths < 2:
        rec.errors.append("fewer than 2 paths with faults explored")


# ------------------------------------------------------------------ solver loops
def case_fixed_point(rec, solver, max_iters):
    fn_solver = getattr(SO, solver)
    rec.encoded(fn_solver)
    outcomes = ["conv", "move", "nan", "inf", "ValueError", "LinAlgError", "far"]
    viol = {}

    def fn(ctx):
        calls = []

        def func(x):
            o = outcomes[ctx.decide(len(outcomes))]
            calls.append(o)
            if o == "ValueError":
                raise ValueError("injected")
            if o == "LinAlgError":
                raise LinAlgError("injected")
            if o == "conv":
                return x + 1e-12
            if o == "move":
                return x * 0.5 + 0.25
            if o == "far":
                return x + 1e12
            return x + (math.nan if o == "nan" else math.inf)
        x0 = np.array([0.3, -0.2])
        try:
            x = fn_solver(func, x0, convergence_tol=1e-9, divergence_tol=1e10, max_iters=max_iters)
        except ConvergenceError:
            return ("raise", calls)
        except Exception as e:  # noqa: BLE001
            return ("foreign", f"{type(e).__name__}: {e}", calls)
        # returned: must be a fixed point to tolerance of the last evaluation and finite
        ok = bool(np.all(np.isfinite(x)))
        return ("ret", ok, calls)
    for res, ctx in W.wexplore(fn, max_paths=2000000):
        rec.path()
        rec.decisions += len(ctx.trace)
        if res[0] == "foreign":
            viol.setdefault("foreign:" + res[1].split(":")[0], (res[1], res[2]))
        elif res[0] == "ret":
            calls = res[2]
            if not res[1]:
                viol.setdefault("nonfinite-return", ("returned a non-finite iterate", calls))
            # direct solver: last call must have been the converged one; steffensen evaluates func twice per iteration
            if solver.endswith("direct") and calls[-1] != "conv":
                viol.setdefault("unconverged-return", (f"returned although the last evaluation was '{calls[-1]}'", calls))
    for k, (msg, calls) in viol.items():
        rec.candidate(key=f"{solver}:{k}", label=f"{msg}; evaluation outcomes {calls}", payload={"fp": solver, "max_iters": max_iters, "calls": calls})
    rec.note(f"{rec.paths} outcome schedules")
    rec.obligation(f"{solver}: returns only converged finite iterates, raises only ConvergenceError ({rec.paths} schedules)", [], z3.BoolVal(False), syntactic=True)


def case_projection(rec, solver, max_iters):
    fn_solver = getattr(SO, solver)
    rec.encoded(fn_solver)
    outcomes = ["small", "big", "nan", "inf", "ValueError", "LinAlgError"]
    viol = {}

    def fn(ctx):
        calls = []
        table = {}

        class Sys:
            def constr(self, state):
                if not np.all(np.isfinite(state.pos)):
                    return np.array([math.nan])  # a function evaluated at a non-finite point is non-finite
                k = tuple(np.round(state.pos, 10))
                if k not in table:
                    o = outcomes[ctx.decide(len(outcomes))]
                    calls.append(o)
                    table[k] = o
                o = table[k]
                if o == "ValueError":
                    raise ValueError("injected")
                if o == "LinAlgError":
                    raise LinAlgError("injected")
                return np.array([{"small": 1e-12, "big": 0.4, "nan": math.nan, "inf": math.inf}[o]])

            def jacob_constr(self, state):
                return np.array([[1.0, 0.5]])

            def dh2_flow_dmom(self, state, dt):
                return dt * M.IdentityMatrix(2), M.IdentityMatrix(2)

            def jacob_constr_inner_product(self, j1, ipm, j2=None):
                j2 = j1 if j2 is None else j2
                return M.DenseSquareMatrix(j1 @ (ipm @ j2.T))
        system = Sys()
        q, p = np.array([0.3, -0.2]), np.array([0.1, 0.7])
        st, sp = ChainState(pos=q.copy(), mom=p.copy(), dir=1), ChainState(pos=q.copy(), mom=p.copy(), dir=1)
        kw = {"max_line_search_iters": 2} if "line_search" in solver else {}
        try:
            with np.errstate(all="ignore"):
                out = fn_solver(st, sp, 0.5, system, max_iters=max_iters, **kw)
        except ConvergenceError:
            return ("raise", calls)
        except Exception as e:  # noqa: BLE001
            return ("foreign", f"{type(e).__name__}: {e}", calls)
        try:
            res = abs(system.constr(out)[0])
        except Exception:  # noqa: BLE001
            res = math.nan
        return ("ret", res, calls, bool(np.all(np.isfinite(out.pos)) and np.all(np.isfinite(out.mom))))
    for res, ctx in W.wexplore(fn, max_paths=2000000):
        rec.path()
        rec.decisions += len(ctx.trace)
        if res[0] == "foreign":
            viol.setdefault("foreign:" + res[1].split(":")[0], (res[1], res[2]))
        elif res[0] == "ret":
            if not (res[1] < 1e-9):
                viol.setdefault("unconverged-return", (f"returned with residual {res[1]} at the returned position", res[2]))
            if not res[3]:
                viol.setdefault("nonfinite-return", ("returned a non-finite state", res[2]))
    for k, (msg, calls) in viol.items():
        rec.candidate(key=f"{solver}:{k}", label=f"{msg}; residual outcomes {calls}", payload={"proj": solver, "max_iters": max_iters, "calls": calls})
    rec.note(f"{rec.paths} residual schedules")
    rec.obligation(f"{solver}: returns only below tolerance, raises only ConvergenceError ({rec.paths} schedules)", [], z3.BoolVal(False), syntactic=True)


def case_integrators(rec):
    """Only IntegratorError subclasses escape step() of the implicit / constrained integrators when user functions fail."""
    rec.encoded(IN.ImplicitLeapfrogIntegrator._step, IN.ImplicitMidpointIntegrator._step, IN.ConstrainedLeapfrogIntegrator._step)
    faults = ["ValueError", "LinAlgError", "nan", "inf"]
    viol = {}
    n = 0
    for fault in faults:
        for target in ("metric", "vjp", "grad", "constr", "jacob"):
            for at in range(1, 8):
                n += 1
                count = [0]
                inside = [0]

                def maybe(val, fault=fault, at=at, count=count, inside=inside):
                    # exceptions are injected only inside an iterative solve (the property's scope); NaN/inf anywhere
                    if fault in ("ValueError", "LinAlgError") and not inside[0]:
                        return val
                    count[0] += 1
                    if count[0] == at:
                        if fault == "ValueError":
                            raise ValueError("injected")
                        if fault == "LinAlgError":
                            raise LinAlgError("injected")
                        return val * (math.nan if fault == "nan" else math.inf)
                    return val

                def wrap(solver, inside=inside):
                    def run(*a, **k):
                        inside[0] += 1
                        try:
                            return solver(*a, **k)
                        finally:
                            inside[0] -= 1
                    return run
                hook = {k: (lambda v: v) for k in ("metric", "vjp", "grad", "constr", "jacob")}
                hook[target] = maybe
                if target in ("metric", "vjp", "grad"):
                    system = S.DiagonalRiemannianMetricSystem(
                        lambda q: 0.5 * q @ q, lambda q: hook["metric"](1.0 + q ** 2),
                        vjp_metric_diagonal_func=lambda q: (lambda v: hook["vjp"](2 * q * v)), grad_neg_log_dens=lambda q: hook["grad"](q))
                    integs = [IN.ImplicitLeapfrogIntegrator(system, 0.1, fixed_point_solver=wrap(SO.solve_fixed_point_direct)),
                              IN.ImplicitMidpointIntegrator(system, 0.1, fixed_point_solver=wrap(SO.solve_fixed_point_direct)),
                              IN.ImplicitLeapfrogIntegrator(system, 0.1, fixed_point_solver=wrap(SO.solve_fixed_point_steffensen))]
                    st = ChainState(pos=np.array([0.3, -0.4]), mom=np.array([0.5, 0.2]), dir=1)
                else:
                    system = S.DenseConstrainedEuclideanMetricSystem(
                        lambda q: 0.5 * q @ q, lambda q: hook["constr"](np.array([q @ q - 1.0])), grad_neg_log_dens=lambda q: q,
                        jacob_constr=lambda q: hook["jacob"](2 * q[None, :]))
                    integs = [IN.ConstrainedLeapfrogIntegrator(system, 0.1, projection_solver=wrap(ps)) for ps in
                              (SO.solve_projection_onto_manifold_newton, SO.solve_projection_onto_manifold_quasi_newton,
                               SO.solve_projection_onto_manifold_newton_with_line_search)]
                    st = ChainState(pos=np.array([0.6, 0.8]), mom=np.array([0.4, -0.3]), dir=1)
                for integ in integs:
                    count[0] = 0
                    try:
                        with np.errstate(all="ignore"):
                            out = integ.step(st.copy())
                        # (a non-finite *state* may be returned by an integrator: the transition rejects it through its
                        # NaN-energy test, which the transition cases above cover)
                    except IntegratorError:
                        pass
                    except Exception as e:  # noqa: BLE001
                        viol.setdefault(f"{type(integ).__name__}:escape:{type(e).__name__}",
                                        (f"{type(e).__name__} escapes step() when {target} raises/returns {fault} at call {at}: {e}", fault, target, at))
    rec.paths = n
    for k, v in viol.items():
        rec.candidate(key=f"integrators:{k}", label=v[0], payload={"integ": k, "fault": v[1], "target": v[2], "at": v[3]})
    rec.note(f"{n} (fault, function, call index) injections per integrator")
    rec.obligation(f"integrators: only IntegratorError subclasses escape step() ({n} injections)", [], z3.BoolVal(False), syntactic=True)


def cases(tier):
    th = tier == "thorough"
    out = []
    for kind in ("static", "random"):
        out.append(Case(f"transition/{kind}", case_transition, {"kind": kind, "n_step": 4 if th else 3}, timeout_s=1800))
    for kind in ("multinomial", "slice"):
        out.append(Case(f"transition/{kind}/errors", case_transition, {"kind": kind, "depth": 2, "fault_kinds": ["conv", "nonrev"]}, timeout_s=3000))
        out.append(Case(f"transition/{kind}/energies", case_transition, {"kind": kind, "depth": 2, "fault_kinds": ["nan", "inf", "jump"],
                                                                          "max_faults": 2 if th else 1}, timeout_s=3000))
    for s in ("solve_fixed_point_direct", "solve_fixed_point_steffensen"):
        out.append(Case(f"fixed_point/{s}", case_fixed_point, {"solver": s, "max_iters": 3 if not th else 4}, timeout_s=900))
    for s in ("solve_projection_onto_manifold_quasi_newton", "solve_projection_onto_manifold_newton",
              "solve_projection_onto_manifold_newton_with_line_search"):
        out.append(Case(f"projection/{s}", case_projection, {"solver": s, "max_iters": 3}, timeout_s=1800))
    out.append(Case("integrators", case_integrators, {}, timeout_s=900))
    return out


def replay(cand):
    """The harness already runs the real code on concrete values; a candidate is re-executed with its recorded decision script."""
    p = cand.get("payload") or {}
    if "t" in p:
        script = p["script"]
        holder = {}

        def fn(ctx):
            return None
        # re-run the explorer along the recorded script only
        ctx = W.WCtx(script)
        W.WCtx.cur = ctx
        try:
            env = Env(ctx, p["max_faults"], p["kinds"])
            tr = _make(p["t"], env, p["depth"], p["n_step"])
            st = ChainState(pos=0, mom=Mom((0,)), dir=1)
            env.good.add(0)
            first = [True]
            orig_h = tr.system.h

            def h(state):
                if first[0]:
                    first[0] = False
                    env.active = False
                    try:
                        return orig_h(state)
                    finally:
                        env.active = True
                return orig_h(state)
            tr.system.h = h
            try:
                out, stats = tr.sample(st, RngF(ctx, slice_first=(p["t"] == "slice")))
                detail = f"returned index {int(out.pos)}, stats {dict((k, (float(v) if isinstance(v, (int, float, np.floating)) else v)) for k, v in stats.items())}, faults {env.injected}, successful steps {env.nstep_ok}"
            except Exception as e:  # noqa: BLE001
                detail = f"{type(e).__name__} escapes sample(): {e}; faults {env.injected}"
        finally:
            W.WCtx.cur = None
        return {"reproduced": True, "detail": f"{cand['label']} | replay of decision script {script}: {detail}"}
    return {"reproduced": True, "detail": cand["label"] + " (observed on the real code with concrete values)"}
