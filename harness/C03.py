"""C03 - integrator steps are symplectic maps.

Compositional, as in the textbook proof: (1) every component flow of every tractable-flow system is symplectic
for a symbolic time (Jacobian read from dual numbers through the real flow code); (2) one instrumented run of each
explicit integrator's ``_step`` shows that the step *is* the composition of those flows with times coefficient x
time_step; (3) end-to-end Jacobians of whole steps where the query discharges.
"""
from __future__ import annotations

from symx.eqcheck import run_problem, replay_problem
from symx.harness import Case
from harness import integlib as L

META = {
    "level": "model_checking",
    "technique": "dual-number Jacobians through the real flow/step code over z3 reals; z3 refutes J^T Omega J != Omega; "
                 "structural obligation ties integrator steps to compositions of the checked flows",
    "explanation": "bounded SMT check: state, time, metric and cubic model coefficients symbolic",
    "bounds": {"quick": {"dim": "1-2"}, "thorough": {"dim": "1-2"}},
    "outside": "three-stage compositions with a dense 2x2 metric and uninterpreted Hessians (normal forms too large); "
               "implicit integrators (exact symplecticity needs implicit differentiation of the solver), constrained "
               "integrator / curved manifolds (induced form on the cotangent bundle), dim > 2; 'a composition of "
               "symplectic maps is symplectic' is a trusted lemma",
    "stubs": ["LAPACK stubs", "SIN/COS uninterpreted with Pythagoras"],
    "assumptions": ["denominators recorded during execution are non-zero"],
}
PROBS = {"flows": L.prob_symplectic_flows, "step": L.prob_symplectic_step, "structure": L.prob_structure,
         "series": L.prob_symplectic_series}


def run_group(rec, probs):
    rec.encoded(L.S.System.h1_flow, L.S.EuclideanMetricSystem.h2_flow, L.S.GaussianEuclideanMetricSystem.h2_flow,
                L.I.LeapfrogIntegrator._step, L.I.SymmetricCompositionIntegrator._step, L.I.Integrator.step)
    for pname, kw in probs:
        key = "/".join(f"{k}={v}" for k, v in sorted(kw.items()))
        run_problem(rec, PROBS[pname], kw, key_prefix=f"{pname}/{key}:", timeout_ms=60000, max_paths=100)


def cases(tier):
    out = []
    th = tier == "thorough"

    def G(name, pname, kw, timeout_s=900):
        out.append(Case(name, run_group, {"probs": [(pname, kw)]}, timeout_s=timeout_s))
    for kind in ("euclid", "gauss"):
        for dim in (1, 2):
            for mkind in ("identity", "diag", "scaled", "dense", "eig"):
                if dim == 1 and mkind == "eig":
                    continue
                mk_ = "dense_eig" if (kind == "gauss" and dim == 2 and mkind == "dense") else mkind
                G(f"flows/{kind}/{dim}/{mk_}", "flows", {"kind": kind, "dim": dim, "mkind": mk_})
    # any smooth target: uninterpreted gradient with an uninterpreted symmetric Hessian
    for kind, dim, mkind in (("euclid", 1, "diag"), ("euclid", 2, "diag"), ("euclid", 2, "dense"), ("gauss", 2, "diag")):
        G(f"flows_uf/{kind}/{dim}/{mkind}", "flows", {"kind": kind, "dim": dim, "mkind": mkind, "uf": True})
    # constrained systems: component flows in ambient coordinates (the Gram log-determinant force must be a gradient field)
    for kind, mkind, kw in (("constr", "diag", {"ckind": "sphere", "hausdorff": False}), ("constr", "dense", {"ckind": "sphere", "hausdorff": False}),
                            ("gauss_constr", "diag", {"ckind": "sphere"}), ("constr", "diag", {"ckind": "sphere", "hausdorff": True})):
        G(f"flows_constr/{kind}/{mkind}/{'hausdorff' if kw.get('hausdorff') else 'lebesgue'}", "flows", {"kind": kind, "dim": 2, "mkind": mkind, **kw})
    for ik, kind, dim, mkind, n in (("leapfrog", "euclid", 2, "diag", 1), ("leapfrog", "euclid", 1, "diag", 2), ("symcomp1", "euclid", 1, "diag", 1),
                                     ("leapfrog", "gauss", 1, "diag", 1), ("symcomp2", "euclid", 2, "diag", 1), ("symcomp3", "euclid", 1, "diag", 1),
                                     ("leapfrog", "euclid", 2, "dense", 2), ("bcss4", "euclid", 2, "diag", 1), ("symcomp2", "gauss", 2, "diag", 1),
                                     ("leapfrog", "euclid", 2, "diag", 3)):
        G(f"step_uf/{ik}/{kind}/{dim}/{mkind}/n{n}", "step", {"ikind": ik, "kind": kind, "dim": dim, "mkind": mkind, "n": n, "uf": True})
    # implicit integrators (real fixed-point solver) on position-dependent metrics: Jacobian of the step as a power series in the
    # step size with dual-number coefficients, J^T Omega J = Omega order by order through eps^3
    ser = [("implicit_leapfrog", "scalar", 1), ("implicit_leapfrog", "diagonal", 1), ("implicit_midpoint", "scalar", 1), ("implicit_leapfrog", "euclid", 1)]
    if th:
        ser += [("implicit_midpoint", "diagonal", 1), ("implicit_leapfrog", "scalar", 2), ("implicit_leapfrog", "cholesky", 1), ("implicit_midpoint", "euclid", 1),
                ("implicit_leapfrog", "gauss", 1)]
    for ik, kind, dim in ser:
        G(f"series_symplectic/{ik}/{kind}/{dim}", "series", {"ikind": ik, "kind": kind, "dim": dim, "mkind": "diag"}, timeout_s=1500)
    for ik in ("leapfrog", "symcomp1", "symcomp1h2", "symcomp2", "symcomp3", "bcss2", "bcss3", "bcss4"):
        G(f"structure/{ik}", "structure", {"ikind": ik}, timeout_s=300)
    steps = [("leapfrog", "euclid", 1, "diag", 1), ("leapfrog", "euclid", 2, "diag", 1), ("leapfrog", "euclid", 1, "diag", 2),
             ("symcomp1", "euclid", 1, "diag", 1), ("leapfrog", "gauss", 1, "diag", 1), ("bcss2", "euclid", 1, "diag", 1)]
    if th:
        steps += [("leapfrog", "euclid", 2, "dense", 1), ("leapfrog", "gauss", 2, "diag", 1),  # (symcomp2 on the cubic-gradient model: > 900 s; covered by step_uf/symcomp2)
                  
                  ("leapfrog", "euclid", 2, "diag", 2), ("bcss3", "euclid", 1, "diag", 1)]
    for ik, kind, dim, mkind, n in steps:
        G(f"step/{ik}/{kind}/{dim}/{mkind}/n{n}", "step", {"ikind": ik, "kind": kind, "dim": dim, "mkind": mkind, "n": n})
    return out


def replay(cand):
    name = cand["key"].split("/", 1)[0]
    return replay_problem(PROBS[name], cand, rtol=2e-4)
