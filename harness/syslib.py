"""Shared by C02-C09, C18: builders of mici systems whose user model functions are polynomials with
symbolic coefficients, generic over the scalar type (SV / dual / series / float), supplied in each of the
accepted return conventions, plus call counters (C18)."""
from __future__ import annotations

import numpy as np

from harness import matlib as ml
from symx.eqcheck import Skip


def _a(xs, like=None):
    """1-D / 2-D array of the right dtype for its entries."""
    flat = np.asarray(xs, dtype=object)
    if all(isinstance(x, (int, float, np.floating, np.integer)) for x in flat.ravel()):
        return np.asarray(xs, dtype=float)
    return flat


class Model:
    """Polynomial target: neg-log-density U, gradient, Hessian, matrix-Tressian product; counts calls."""

    def __init__(self, mk, dim, prefix="c", convention="plain"):
        self.dim = dim
        self.convention = convention
        self.calls = {"nld": 0, "grad": 0, "hess": 0, "mtp": 0}
        if dim == 1:
            self.c = [mk.real(f"{prefix}{i}") for i in range(3)]
        else:
            self.c = [mk.real(f"{prefix}{i}") for i in range(4)]

    def U(self, q):
        c = self.c
        if self.dim == 1:
            return c[0] * q[0] * q[0] / 2 + c[1] * q[0] * q[0] * q[0] / 3 + c[2] * q[0]
        return c[0] * q[0] * q[0] + c[1] * q[0] * q[1] + c[2] * q[1] * q[1] * q[1] + c[3] * q[1]

    def G(self, q):
        c = self.c
        if self.dim == 1:
            return _a([c[0] * q[0] + c[1] * q[0] * q[0] + c[2]])
        return _a([2 * c[0] * q[0] + c[1] * q[1], c[1] * q[0] + 3 * c[2] * q[1] * q[1] + c[3]])

    def H(self, q):
        c = self.c
        if self.dim == 1:
            return _a([[c[0] + 2 * c[1] * q[0]]])
        return _a([[2 * c[0] + 0 * q[0], c[1] + 0 * q[0]], [c[1] + 0 * q[0], 6 * c[2] * q[1]]])

    def MTP(self, q):
        c = self.c
        if self.dim == 1:
            return lambda m: _a([m[0, 0] * 2 * c[1]])
        return lambda m: _a([0 * m[0, 0], m[1, 1] * 6 * c[2]])

    # functions handed to mici
    def neg_log_dens(self, q):
        self.calls["nld"] += 1
        return self.U(q)

    def grad_neg_log_dens(self, q):
        self.calls["grad"] += 1
        if self.convention == "aux":
            return self.G(q), self.U(q)
        return self.G(q)

    def hess_neg_log_dens(self, q):
        self.calls["hess"] += 1
        if self.convention == "aux":
            return self.H(q), self.G(q), self.U(q)
        return self.H(q)

    def mtp_neg_log_dens(self, q):
        self.calls["mtp"] += 1
        if self.convention == "aux":
            return self.MTP(q), self.H(q), self.G(q), self.U(q)
        return self.MTP(q)


class GeneralModel(Model):
    """Translation-closed polynomial family for expansions at q = 0: every coefficient of every monomial up to the degree is a free
    symbol (dim 1: degree 4; dim 2: degree 3), so 'for all coefficients at q = 0' is 'for all coefficients at every q0'."""

    def __init__(self, mk, dim, prefix="g", convention="plain", degree=4):
        self.dim = dim
        self.convention = convention
        self.calls = {"nld": 0, "grad": 0, "hess": 0, "mtp": 0}
        self.degree = degree
        n = min(degree, 4) if dim == 1 else 9
        self.c = [mk.real(f"{prefix}{i}") for i in range(n)]

    def _terms(self):
        """[(coefficient, (e0, e1))]: U = sum coefficient * q0^e0 * q1^e1 / (e0! e1!)"""
        c = self.c
        if self.dim == 1:
            return [(ci, (i + 1,)) for i, ci in enumerate(c)]
        mons = [(1, 0), (0, 1), (2, 0), (1, 1), (0, 2), (3, 0), (2, 1), (1, 2), (0, 3)]
        return list(zip(c, mons))

    @staticmethod
    def _mono(q, es):
        import math as _m
        r = 1
        for x, e in zip(q, es):
            for _ in range(e):
                r = r * x
            r = r / _m.factorial(e)
        return r

    def _deriv(self, q, order):
        """Tensor of partial derivatives of the given order at q (nested lists)."""
        d = self.dim

        def dd(idx):
            tot = 0 * q[0]
            for coef, es in self._terms():
                es2 = list(es)
                ok = True
                for i in idx:
                    if es2[i] == 0:
                        ok = False
                        break
                    es2[i] -= 1
                if ok:
                    tot = tot + coef * self._mono(q, es2)
            return tot
        if order == 0:
            return dd(())
        if order == 1:
            return _a([dd((i,)) for i in range(d)])
        if order == 2:
            return _a([[dd((i, j)) for j in range(d)] for i in range(d)])
        return [[[dd((i, j, k)) for k in range(d)] for j in range(d)] for i in range(d)]

    def U(self, q):
        return self._deriv(q, 0)

    def G(self, q):
        return self._deriv(q, 1)

    def H(self, q):
        return self._deriv(q, 2)

    def MTP(self, q):
        T = self._deriv(q, 3)
        d = self.dim
        return lambda m: _a([sum(m[i, j] * T[i][j][k] for i in range(d) for j in range(d)) for k in range(d)])


class UFModel(Model):
    """Target with an *uninterpreted* potential and gradient: U = Upot(q), dU/dq_i = Ugrad_i(q) (z3 functions),
    i.e. any density whatsoever.  In a concrete replay the functions are the finite tables of the solver's model
    (nearest-argument lookup)."""

    def __init__(self, mk, dim, prefix="c", convention="plain"):
        self.dim = dim
        self.convention = convention
        self.calls = {"nld": 0, "grad": 0, "hess": 0, "mtp": 0}
        self.mk = mk
        self.c = []
        if mk.symbolic:
            import z3
            R = z3.RealSort()
            self.Uf = z3.Function("Upot", *([R] * (dim + 1)))
            self.Gf = [z3.Function(f"Ugrad{i}", *([R] * (dim + 1))) for i in range(dim)]
            mk.ufs = getattr(mk, "ufs", {})
            mk.ufs["Upot"] = self.Uf
            for i, f in enumerate(self.Gf):
                mk.ufs[f"Ugrad{i}"] = f

    def _lookup(self, name, q):
        tab = self.mk.vals.get("__uf__", {}).get(name)
        if not tab:
            return 0.0
        best, bd = None, None
        for args, val in tab["entries"]:
            d = max(abs(a - float(x)) for a, x in zip(args, q))
            if bd is None or d < bd:
                best, bd = val, d
        if bd is not None and bd <= 1e-6 * (1 + max(abs(float(x)) for x in q)):
            return best
        return tab["else"]

    def U(self, q):
        if self.mk.symbolic:
            from symx.core import SV
            return SV(self.Uf(*[SV.lift(x).e for x in q]))
        return self._lookup("Upot", q)

    def G(self, q):
        if self.mk.symbolic:
            from symx.core import SV
            from symx.dual import D
            if any(isinstance(x, D) for x in q):
                # dual-number input: the Jacobian of the gradient is an uninterpreted SYMMETRIC matrix function (a Hessian)
                import z3
                vals = [x.v if isinstance(x, D) else SV.lift(x) for x in q]
                args = [v.e for v in vals]
                R = z3.RealSort()
                out = []
                for i in range(self.dim):
                    gi = SV(self.Gf[i](*args))
                    K = max(len(x.t) for x in q if isinstance(x, D))
                    tang = [SV(0)] * K
                    for j in range(self.dim):
                        if not isinstance(q[j], D):
                            continue
                        a, b = min(i, j), max(i, j)
                        hij = SV(z3.Function(f"Uhess{a}{b}", *([R] * (self.dim + 1)))(*args))
                        tang = [t + hij * dq for t, dq in zip(tang, q[j].t)]
                    out.append(D(gi, tang))
                return np.array(out, dtype=object)
            return np.array([SV(f(*[SV.lift(x).e for x in q])) for f in self.Gf], dtype=object)
        return np.array([self._lookup(f"Ugrad{i}", q) for i in range(self.dim)], dtype=float)


class MetricModel:
    """Position-dependent metric parameter functions with hand-written VJPs."""

    def __init__(self, mk, kind, dim, convention="plain", general=False, degree=4):
        self.kind, self.dim, self.convention = kind, dim, convention
        self.calls = {"metric": 0, "vjp": 0}
        self.general = general
        self.a = [mk.real(f"a{i}") for i in range(4)] if not general else []
        self.g = [mk.real(f"m{i}") for i in range(degree + 1 if dim == 1 else 6)] if general else []

    def _gen_poly(self, q):
        """General polynomial with free coefficients (translation-closed): dim 1 degree 4, dim 2 degree 2; and its gradient."""
        g = self.g
        if self.dim == 1:
            x = q[0]
            val, grad, xp = g[0], 0 * x, 1
            for k in range(1, len(g)):
                grad = grad + k * g[k] * xp
                xp = xp * x
                val = val + g[k] * xp
            return val, [grad]
        x, y = q[0], q[1]
        val = g[0] + g[1] * x + g[2] * y + g[3] * x * x + g[4] * x * y + g[5] * y * y
        grad = [g[1] + 2 * g[3] * x + g[4] * y, g[2] + g[4] * x + 2 * g[5] * y]
        return val, grad

    def param(self, q):
        a = self.a
        k, d = self.kind, self.dim
        if self.general:
            val, _ = self._gen_poly(q)
            if k == "scalar":
                return val
            if k == "diagonal" and d == 1:
                return _a([val])
            if k in ("cholesky", "dense") and d == 1:
                return _a([[val]])
            raise Skip(f"general {k} metric model in dim {d} not defined")
        if k == "scalar":
            return a[0] + a[1] * sum(x * x for x in q)
        if k == "blockdiag":
            # generic RiemannianMetricSystem with a block-diagonal metric class: the parameter (and so the gradients handed to
            # the user's VJP) is a TUPLE with one entry per block - an array for the diagonal block, a scalar for the scaled identity
            b1, b2 = self._blocks(q)
            return (self.M.PositiveDiagonalMatrix(_a([b1])), self.M.PositiveScaledIdentityMatrix(b2, 1))
        if k == "diagonal":
            if d == 1:
                return _a([a[0] + a[1] * q[0] * q[0]])
            return _a([a[0] + a[1] * q[0] * q[0] + q[1] * q[1], a[2] + a[3] * q[0] * q[0]])
        if k == "cholesky":
            if d == 1:
                return _a([[a[0] + a[1] * q[0] * q[0]]])
            return _a([[a[0] + a[1] * q[1] * q[1], 0 * q[0]], [a[2] * q[0], a[3] + 0 * q[0]]])
        if k == "dense":
            if d == 1:
                return _a([[a[0] + a[1] * q[0] * q[0]]])
            return _a([[a[0] + q[1] * q[1], a[1] * q[0]], [a[1] * q[0], a[2] + q[0] * q[0]]])
        raise KeyError(k)

    def _blocks(self, q):
        a = self.a
        return a[0] + a[1] * q[0] * q[0] + q[1] * q[1], a[2] + a[3] * q[0] * q[0]

    def vjp(self, q):
        a = self.a
        k, d = self.kind, self.dim
        if k == "blockdiag":
            def vjp_blocks(grads):
                if not (isinstance(grads, tuple) and len(grads) == 2):
                    raise TypeError(f"block-diagonal metric VJP expects one gradient per block, got {type(grads).__name__} of length {len(grads)}")
                g1, g2 = grads
                return _a([g1[0] * 2 * a[1] * q[0] + g2 * 2 * a[3] * q[0], g1[0] * 2 * q[1]])
            return vjp_blocks
        if self.general:
            _, grad = self._gen_poly(q)
            if k == "scalar":
                return lambda v: _a([v * gi for gi in grad])
            if k == "diagonal":
                return lambda v: _a([v[0] * grad[0]])
            return lambda v: _a([v[0, 0] * grad[0]])
        if k == "scalar":
            return lambda v: _a([v * 2 * a[1] * x for x in q])
        if k == "diagonal":
            if d == 1:
                return lambda v: _a([v[0] * 2 * a[1] * q[0]])
            return lambda v: _a([v[0] * 2 * a[1] * q[0] + v[1] * 2 * a[3] * q[0], v[0] * 2 * q[1]])
        if k in ("cholesky", "dense") and d == 1:
            return lambda v: _a([v[0, 0] * 2 * a[1] * q[0]])
        if k == "cholesky":
            return lambda v: _a([v[1, 0] * a[2], v[0, 0] * 2 * a[1] * q[1]])
        if k == "dense":
            return lambda v: _a([(v[0, 1] + v[1, 0]) * a[1] + v[1, 1] * 2 * q[0], v[0, 0] * 2 * q[1]])
        raise KeyError(k)

    def dense(self, q):
        """Dense metric array at q (explicit formula, for references)."""
        k, d = self.kind, self.dim
        if k == "blockdiag":
            b1, b2 = self._blocks(q)
            out = np.zeros((2, 2), dtype=object)
            out[0, 0], out[1, 1] = b1, b2
            return out
        p = self.param(q)
        if k == "scalar":
            out = np.zeros((d, d), dtype=object)
            for i in range(d):
                out[i, i] = p
            return out
        if k == "diagonal":
            out = np.zeros((d, d), dtype=object)
            for i in range(d):
                out[i, i] = p[i]
            return out
        if k == "cholesky":
            L = np.tril(p)
            return L @ L.T
        return p

    def require_valid(self, mk, q):
        """Documented precondition: the metric is positive definite at the evaluation point."""
        k, d = self.kind, self.dim
        if k == "blockdiag":
            for x in self._blocks(q):
                mk.require(x > 0)
            return
        p = self.param(q)
        if k == "scalar":
            mk.require(p > 0)
        elif k == "diagonal":
            for x in p:
                mk.require(x > 0)
        elif k == "cholesky":
            for i in range(d):
                mk.require(p[i, i] > 0)
        else:
            for m_ in range(1, d + 1):
                mk.require(ml.det(p[:m_, :m_]) > 0)

    def metric_func(self, q):
        self.calls["metric"] += 1
        return self.param(q)

    def vjp_metric_func(self, q):
        self.calls["vjp"] += 1
        if self.convention == "aux":
            return self.vjp(q), self.param(q)
        return self.vjp(q)


class ConstraintModel:
    """One constraint in dim 2 (or two in dim 3): linear a.q - b, or a sphere q.q - r^2."""

    def __init__(self, mk, kind, dim, convention="plain"):
        self.kind, self.dim, self.convention = kind, dim, convention
        self.calls = {"constr": 0, "jacob": 0, "mhp": 0}
        if kind == "linear":
            self.a = [mk.real(f"ca{i}") for i in range(dim)]
            self.b = mk.real("cb")
        else:
            self.r2 = mk.pos("cr2")

    def c(self, q):
        if self.kind == "linear":
            return _a([sum(a * x for a, x in zip(self.a, q)) - self.b])
        return _a([sum(x * x for x in q) - self.r2])

    def J(self, q):
        if self.kind == "linear":
            return _a([[a + 0 * q[0] for a in self.a]])
        return _a([[2 * x for x in q]])

    def MHP(self, q):
        if self.kind == "linear":
            return lambda m: _a([0 * m[0, i] for i in range(self.dim)])
        return lambda m: _a([2 * m[0, i] for i in range(self.dim)])

    def constr(self, q):
        self.calls["constr"] += 1
        return self.c(q)

    def jacob_constr(self, q):
        self.calls["jacob"] += 1
        if self.convention == "aux":
            return self.J(q), self.c(q)
        return self.J(q)

    def mhp_constr(self, q):
        self.calls["mhp"] += 1
        if self.convention == "aux":
            return self.MHP(q), self.J(q), self.c(q)
        return self.MHP(q)


def make_metric(M, mk, mkind, dim):
    """Constant metric objects for Euclidean-type systems: (argument for the system constructor, dense reference)."""
    if mkind == "identity":
        return None, ml.eye(mk, dim)
    if mkind == "diag":
        d = mk.arr("m", dim, "pos")
        return M.PositiveDiagonalMatrix(d), np.diag(d)
    if mkind == "diag_array":
        d = mk.arr("m", dim, "pos")
        return d, np.diag(d)
    if mkind == "dense":
        A, L = ml.spd(mk, "ml", dim)
        return M.DensePositiveDefiniteMatrix(A), A
    if mkind == "dense_array":
        A, L = ml.spd(mk, "ml", dim)
        return A, A
    if mkind == "dense_inv":
        # a metric obtained as the inverse of a dense covariance: what OnlineCovarianceMetricAdapter.finalize installs
        A, L = ml.spd(mk, "ml", dim)
        return M.DensePositiveDefiniteMatrix(A).inv, ml.inv(A)
    if mkind == "diag_inv":
        d = mk.arr("m", dim, "pos")
        return M.PositiveDiagonalMatrix(d).inv, np.diag(1 / d)
    if mkind == "scaled":
        s = mk.pos("ms")
        return M.PositiveScaledIdentityMatrix(s, dim), s * ml.eye(mk, dim)
    if mkind == "trifact":
        L = ml.lower_tri(mk, "ml", dim)
        return M.TriangularFactoredPositiveDefiniteMatrix(L, factor_is_lower=True), L @ L.T
    if mkind == "dense_eig":
        # a dense SPD matrix written as Q diag(w) Q^T (every SPD 2x2 has this form); the eigh stub is told the
        # decomposition, so LAPACK's contract is instantiated with its actual solution instead of fresh symbols
        Q = ml.orth(mk, "mq", dim)
        w = mk.arr("mw", dim, "pos")
        A = Q @ np.diag(w) @ Q.T
        ml._reg(mk, A, w, Q)
        return M.DensePositiveDefiniteMatrix(A), A
    if mkind == "eig":
        Q = ml.orth(mk, "mq", dim)
        w = mk.arr("mw", dim, "pos")
        A = Q @ np.diag(w) @ Q.T
        ml._reg(mk, A, w, Q)
        return M.EigendecomposedPositiveDefiniteMatrix(Q, w), A
    raise KeyError(mkind)


def make_system(S, M, mk, kind, dim, mkind="diag", convention="plain", ckind="linear", hausdorff=True, uf=False, general=False):
    """Returns (system, info) where info carries the model objects and dense references.  general=True: translation-closed
    polynomial families (every monomial coefficient free) for potential and metric, for expansions at q = 0."""
    gdeg = 4 if general is True else int(general)  # general=3: degree-3 families (enough for obligations through eps^3 of a map)
    model = GeneralModel(mk, dim, convention=convention, degree=gdeg) if general else (UFModel if uf else Model)(mk, dim, convention=convention)
    info = {"model": model, "dim": dim, "kind": kind}
    if kind in ("euclid", "gauss"):
        metric, Md = make_metric(M, mk, mkind, dim)
        cls = S.EuclideanMetricSystem if kind == "euclid" else S.GaussianEuclideanMetricSystem
        sysm = cls(model.neg_log_dens, metric=metric, grad_neg_log_dens=model.grad_neg_log_dens)
        info["metric_dense"] = lambda q: Md
        return sysm, info
    if kind in ("constr", "gauss_constr"):
        metric, Md = make_metric(M, mk, mkind, dim)
        cm = ConstraintModel(mk, ckind, dim, convention=convention)
        info["constraint"] = cm
        info["metric_dense"] = lambda q: Md
        if kind == "constr":
            sysm = S.DenseConstrainedEuclideanMetricSystem(
                model.neg_log_dens, cm.constr, metric=metric, dens_wrt_hausdorff=hausdorff,
                grad_neg_log_dens=model.grad_neg_log_dens, jacob_constr=cm.jacob_constr,
                mhp_constr=None if hausdorff else cm.mhp_constr)
        else:
            sysm = S.GaussianDenseConstrainedEuclideanMetricSystem(
                model.neg_log_dens, cm.constr, metric=metric, grad_neg_log_dens=model.grad_neg_log_dens,
                jacob_constr=cm.jacob_constr, mhp_constr=cm.mhp_constr)
        info["hausdorff"] = hausdorff if kind == "constr" else False
        return sysm, info
    if kind == "blockdiag":
        mm = MetricModel(mk, kind, 2, convention=convention)
        mm.M = M
        info["metric_model"] = mm
        info["metric_dense"] = mm.dense
        sysm = S.RiemannianMetricSystem(model.neg_log_dens, M.PositiveDefiniteBlockDiagonalMatrix, mm.metric_func,
                                        vjp_metric_func=mm.vjp_metric_func, grad_neg_log_dens=model.grad_neg_log_dens)
        return sysm, info
    if kind in ("scalar", "diagonal", "cholesky", "dense"):
        mm = MetricModel(mk, kind, dim, convention=convention, general=bool(general), degree=gdeg)
        info["metric_model"] = mm
        info["metric_dense"] = mm.dense
        cls = {"scalar": S.ScalarRiemannianMetricSystem, "diagonal": S.DiagonalRiemannianMetricSystem,
               "cholesky": S.CholeskyFactoredRiemannianMetricSystem, "dense": S.DenseRiemannianMetricSystem}[kind]
        kwn = {"scalar": ("metric_scalar_func", "vjp_metric_scalar_func"), "diagonal": ("metric_diagonal_func", "vjp_metric_diagonal_func"),
               "cholesky": ("metric_chol_func", "vjp_metric_chol_func"), "dense": ("metric_func", "vjp_metric_func")}[kind]
        sysm = cls(model.neg_log_dens, **{kwn[0]: mm.metric_func, kwn[1]: mm.vjp_metric_func},
                   grad_neg_log_dens=model.grad_neg_log_dens)
        return sysm, info
    if kind == "softabs":
        alpha = mk.pos("alpha")
        info["alpha"] = alpha
        sysm = S.SoftAbsRiemannianMetricSystem(model.neg_log_dens, grad_neg_log_dens=model.grad_neg_log_dens,
                                               hess_neg_log_dens=model.hess_neg_log_dens,
                                               mtp_neg_log_dens=model.mtp_neg_log_dens, softabs_coeff=alpha)
        return sysm, info
    raise KeyError(kind)
