"""C02 - every integrator step is time-reversible or fails loudly.

Explicit integrators (leapfrog, symmetric compositions with symbolic free coefficients, BCSS schemes): n steps,
direction flip, n steps on z3-valued states with a symbolic step size, polynomial targets with symbolic
coefficients, all constant metric types, Gaussian split (sin/cos uninterpreted + parity/addition instances).
Constrained leapfrog with a linear constraint and the three *real* projection solvers (exact arithmetic).
Implicit integrators with the *real* fixed-point solvers in the power-series domain (reversible through eps^3).
"""
from __future__ import annotations

from symx.eqcheck import run_problem, replay_problem
from symx.harness import Case
from harness import integlib as L

META = {
    "level": "model_checking",
    "technique": "symbolic execution of the real integrators (z3 reals; truncated power series in the step size for the "
                 "implicit ones, with the real solver loops); z3 refutes 'state after n forward + n reversed steps != start'",
    "explanation": "bounded SMT check: state, step size, metric, free coefficients and cubic model coefficients symbolic",
    "bounds": {"quick": {"n_steps": "1-2", "dim": "1-2", "implicit": "dim 1, coefficients eps^0..eps^3"},
               "thorough": {"n_steps": "1-3", "dim": "1-2", "implicit": "dim 1-2"}},
    "outside": "curved constraints end to end (solver contract: C04), SoftAbs/Cholesky/dense Riemannian systems, "
               "'up to solver tolerance' idealised to exact arithmetic, implicit integrators beyond O(eps^4), targets "
               "that are not cubic polynomials",
    "stubs": ["LAPACK stubs", "SIN/COS uninterpreted with Pythagoras + parity/addition instances"],
    "assumptions": ["step size > 0", "denominators recorded during execution are non-zero",
                    "constrained: start state on the manifold with cotangent momentum (integrator precondition)"],
}
PROBS = {"reversible": L.prob_reversible, "constrained": L.prob_constrained, "series_reversible": L.prob_series_reversible}


def run_group(rec, probs):
    rec.encoded(L.I.Integrator.step, L.I.LeapfrogIntegrator._step, L.I.SymmetricCompositionIntegrator, L.I.ImplicitLeapfrogIntegrator,
                L.I.ImplicitMidpointIntegrator, L.I.ConstrainedLeapfrogIntegrator, L.SO.solve_fixed_point_direct,
                L.SO.solve_fixed_point_steffensen, L.SO.solve_projection_onto_manifold_newton,
                L.SO.solve_projection_onto_manifold_quasi_newton, L.SO.solve_projection_onto_manifold_newton_with_line_search,
                L.S.System.h1_flow, L.S.EuclideanMetricSystem.h2_flow, L.S.GaussianEuclideanMetricSystem.h2_flow)
    for pname, kw in probs:
        key = "/".join(f"{k}={v}" for k, v in sorted(kw.items()))
        run_problem(rec, PROBS[pname], kw, key_prefix=f"{pname}/{key}:", timeout_ms=60000, max_paths=300)


def cases(tier):
    out = []
    th = tier == "thorough"

    def G(name, pname, kw, timeout_s=900):
        out.append(Case(name, run_group, {"probs": [(pname, kw)]}, timeout_s=timeout_s))
    integs = ["leapfrog", "symcomp1", "symcomp1h2", "symcomp2", "symcomp3", "bcss2", "bcss3", "bcss4"]
    systems = [("euclid", 1, "identity"), ("euclid", 2, "diag"), ("euclid", 2, "dense"), ("gauss", 1, "diag"), ("gauss", 2, "diag"),
               ("gauss", 2, "identity")]
    if th:
        systems += [("euclid", 2, "eig"), ("euclid", 2, "trifact"), ("gauss", 2, "dense_eig"), ("euclid", 2, "scaled")]
    for ik in integs:
        for kind, dim, mkind in systems:
            for n in ((1, 2, 3) if th else (1, 2)):
                if not th and n == 2 and (ik in ("symcomp3", "bcss4", "bcss3") or kind == "gauss"):
                    continue
                if n == 3 and (kind == "gauss" or ik in ("symcomp3", "bcss4")):
                    continue
                for d0 in (1, -1):
                    if d0 == -1 and n > 1:
                        continue
                    G(f"rev/{ik}/{kind}/{dim}/{mkind}/n{n}/d{d0}", "reversible",
                      {"ikind": ik, "kind": kind, "dim": dim, "mkind": mkind, "n": n, "d0": d0})
    for solver in ("newton", "quasi_newton", "line_search"):
        for mkind in (("identity", "diag", "dense") if th else ("identity",)):
            for n_inner in (1, 2):
                G(f"constrained/{solver}/{mkind}/inner{n_inner}", "constrained",
                  {"solver": solver, "mkind": mkind, "n_inner": n_inner, "n": 1}, timeout_s=1500)
    for ik in ("implicit_leapfrog", "implicit_midpoint"):
        for kind, dim, mkind in [("euclid", 1, "diag")] + ([("scalar", 1, "diag"), ("diagonal", 1, "diag"), ("scalar", 2, "diag")] if th else []):
            if ik.endswith("steffensen") and kind != "euclid":
                continue
            G(f"series_rev/{ik}/{kind}/{dim}", "series_reversible", {"ikind": ik, "kind": kind, "dim": dim, "mkind": mkind, "n": 1},
              timeout_s=1500)
    return out


def replay(cand):
    name = cand["key"].split("/", 1)[0]
    return replay_problem(PROBS[name], cand, rtol=1e-6)
