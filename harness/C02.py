"""C02 - every integrator step is time-reversible or fails loudly.

Explicit integrators (leapfrog, symmetric compositions with symbolic free coefficients, BCSS schemes): n steps,
direction flip, n steps on z3-valued states with a symbolic step size, polynomial targets with symbolic
coefficients, all constant metric types, Gaussian split (sin/cos uninterpreted + parity/addition instances).
Constrained leapfrog with a linear constraint and the three *real* projection solvers (exact arithmetic).
Implicit integrators with the *real* fixed-point solvers in the power-series domain (reversible through eps^3).
"""
from __future__ import annotations

from symx.eqcheck import run_problem, replay_problem
from symx.harness import Case
from harness import integlib as L

META = {
    "level": "model_checking",
    "technique": "symbolic execution of the real integrators (z3 reals; truncated power series in the step size for the "
                 "implicit ones, with the real solver loops); z3 refutes 'state after n forward + n reversed steps != start'",
    "explanation": "bounded SMT check: state, step size, metric, free coefficients and cubic model coefficients symbolic",
    "bounds": {"quick": {"n_steps": "1-2", "dim": "1-2", "implicit": "dim 1, coefficients eps^0..eps^3"},
               "thorough": {"n_steps": "1-3", "dim": "1-2", "implicit": "dim 1-2"}},
    "outside": "curved constraints end to end except on the concrete circle problem of the oracle-roots case (solver contract: C04), "
               "implicit integrators on position-dependent (Riemannian) metrics (series normal forms of forward + reversed step do not finish), "
               "'up to solver tolerance' idealised to exact arithmetic, implicit integrators beyond O(eps^4), targets "
               "that are not cubic polynomials",
    "stubs": ["LAPACK stubs", "SIN/COS uninterpreted with Pythagoras + parity/addition instances"],
    "assumptions": ["step size > 0", "denominators recorded during execution are non-zero",
                    "constrained: start state on the manifold with cotangent momentum (integrator precondition)"],
}
PROBS = {"reversible": L.prob_reversible, "constrained": L.prob_constrained, "series_reversible": L.prob_series_reversible}


def run_group(rec, probs):
    rec.encoded(L.I.Integrator.step, L.I.LeapfrogIntegrator._step, L.I.SymmetricCompositionIntegrator, L.I.ImplicitLeapfrogIntegrator,
                L.I.ImplicitMidpointIntegrator, L.I.ConstrainedLeapfrogIntegrator, L.SO.solve_fixed_point_direct,
                L.SO.solve_fixed_point_steffensen, L.SO.solve_projection_onto_manifold_newton,
                L.SO.solve_projection_onto_manifold_quasi_newton, L.SO.solve_projection_onto_manifold_newton_with_line_search,
                L.S.System.h1_flow, L.S.EuclideanMetricSystem.h2_flow, L.S.GaussianEuclideanMetricSystem.h2_flow)
    for pname, kw in probs:
        key = "/".join(f"{k}={v}" for k, v in sorted(kw.items()))
        run_problem(rec, PROBS[pname], kw, key_prefix=f"{pname}/{key}:", timeout_ms=60000, max_paths=300)


def case_oracle_roots(rec, n_inner, step_size, variant="identity"):
    """'Fails loudly' with a projection solver that may return ANY root: unit circle constraint, identity metric, concrete
    start states; the solver handed to the real ConstrainedLeapfrogIntegrator picks - as an explorer choice per call - either
    intersection of the projection line with the circle (both satisfy the solver's contract).  Every choice sequence must
    end in an IntegratorError or in a state from which the reversed step returns to the start."""
    import math
    import numpy as np
    import z3
    from symx import weights as W
    from mici.errors import IntegratorError, ConvergenceError
    I, S, ChainState = L.I, L.S, L.ChainState
    M_ = L.M
    rec.encoded(I.ConstrainedLeapfrogIntegrator._step_b, I.ConstrainedLeapfrogIntegrator._step, I.ConstrainedLeapfrogIntegrator._h2_flow_retraction_onto_manifold)
    if variant == "identity":
        m_diag = np.ones(2)
        system = S.DenseConstrainedEuclideanMetricSystem(lambda q: 0.0, lambda q: np.array([q @ q - 1.0]), grad_neg_log_dens=lambda q: 0 * q,
                                                         jacob_constr=lambda q: 2 * q[None, :])
    else:
        # non-identity metric, density w.r.t. the Lebesgue measure of the ambient space (the Gram log-determinant force is part of
        # h1 and is neither zero nor normal to the circle), non-constant potential
        m_diag = np.array([1.0, 2.5])
        w = np.array([1.0, 3.0])
        system = S.DenseConstrainedEuclideanMetricSystem(
            lambda q: 0.5 * (w * q) @ q, lambda q: np.array([q @ q - 1.0]), metric=M_.PositiveDiagonalMatrix(m_diag.copy()),
            dens_wrt_hausdorff=False, grad_neg_log_dens=lambda q: w * q, jacob_constr=lambda q: 2 * q[None, :],
            mhp_constr=lambda q: (lambda m: 2 * m[0]))
    viol = {}
    outcomes = {}
    starts = [(0.3, 0.9), (1.2, -0.7), (2.1, 0.4), (4.0, 1.6), (5.5, -2.2)]
    policy = [0]

    def oracle(state, state_prev, time_step, system_, **kw):
        # pos_new = pos - |t| * J_prev^T lam ; mom_new = mom - sign(t) * J_prev^T lam ; |pos_new|^2 = 1
        a = state.pos
        b = abs(time_step) * 2 * state_prev.pos / m_diag
        A, B, C = b @ b, -2 * (a @ b), a @ a - 1.0
        disc = B * B - 4 * A * C
        if disc < 0:
            raise ConvergenceError("no intersection")
        roots = [(-B - math.sqrt(disc)) / (2 * A), (-B + math.sqrt(disc)) / (2 * A)]
        # the solver is a *deterministic* function of its inputs (the integrator's reversibility check compares a forward and a
        # backward call of the same solver); WHICH deterministic root-selection rule it implements is the explorer's choice
        pol = policy[0]
        by_abs = sorted(roots, key=abs)
        cand_pos = [state.pos - abs(time_step) * 2 * state_prev.pos / m_diag * r for r in roots]
        if pol == 0:
            lam = by_abs[0]
        elif pol == 1:
            lam = by_abs[1]
        elif pol == 2:
            lam = by_abs[0] if time_step > 0 else by_abs[1]
        elif pol == 3:
            lam = roots[0] if cand_pos[0][0] >= cand_pos[1][0] else roots[1]
        else:
            lam = roots[0] if cand_pos[0][1] >= cand_pos[1][1] else roots[1]
        mu = 2 * state_prev.pos * lam
        state.pos = state.pos - abs(time_step) * mu / m_diag
        state.mom = state.mom - np.sign(time_step) * mu
        return state
    for th_, om in starts:
        q0 = np.array([math.cos(th_), math.sin(th_)])
        p0 = om * m_diag * np.array([-math.sin(th_), math.cos(th_)])  # cotangent: J M^-1 p = 0

        def fn(ctx):
            policy[0] = ctx.decide(5)
            integ = I.ConstrainedLeapfrogIntegrator(system, step_size, n_inner_step=n_inner, projection_solver=oracle)
            st = ChainState(pos=q0.copy(), mom=p0.copy(), dir=1)
            try:
                s1 = integ.step(st)
            except IntegratorError:
                return ("raise", None)
            s1 = s1.copy()
            s1.dir = -1
            try:
                s2 = integ.step(s1)
            except IntegratorError:
                return ("ret-noreverse", float("nan"))
            return ("ret", float(max(np.max(np.abs(s2.pos - q0)), np.max(np.abs(s2.mom - p0)))))
        for res, ctx in W.wexplore(fn, max_paths=100000):
            rec.path()
            outcomes[res[0]] = outcomes.get(res[0], 0) + 1
            rec.decisions += len(ctx.trace)
            if res[0] == "ret" and not res[1] < 1e-6:
                viol.setdefault("non-reversible-return", (f"start angle {th_}, speed {om}, n_inner_step={n_inner}, step {step_size}: step() returned a state "
                                                          f"(root-selection rule #{[k for k, _ in ctx.trace]}) whose reversal misses the start by {res[1]:.3g}",
                                                          [th_, om, [k for k, _ in ctx.trace]]))
            elif res[0] == "ret-noreverse":
                viol.setdefault("non-reversible-return", (f"start angle {th_}, speed {om}: step() returned a state from which the reversed step fails",
                                                          [th_, om, [k for k, _ in ctx.trace]]))
    for k, (msg, data) in viol.items():
        rec.candidate(key=f"oracle_roots/{variant}:{k}", label=msg, payload={"oracle": data, "n_inner": n_inner, "step": step_size, "variant": variant})
    rec.note(f"{rec.paths} root-choice sequences: {outcomes}")
    if not outcomes.get("ret"):
        rec.errors.append("vacuous: no choice sequence returned a state")
    rec.obligation(f"oracle projection roots ({variant}), n_inner_step={n_inner}, step {step_size}: every returned state reverses ({rec.paths} choice sequences)",
                   [], z3.BoolVal(False), syntactic=True)


def case_implicit_roots(rec, ikind, step_size):
    """'Fails loudly' for the implicit integrators when the implicit sub-step equations have SEVERAL solutions (position-dependent
    metric 1 + q^2, large steps / fast momenta): the real integrator with (a) the real direct fixed-point solver and (b) oracle
    solvers that return a root of x = func(x) selected by a deterministic rule of (root set, x0) - nearest to x0, second nearest,
    smallest, largest; the rule is the explorer's choice.  Every run must end in an IntegratorError or in a state from which
    the reversed step returns to the start.  (A reversibility check that does not repeat the solve a reversed trajectory
    would perform - e.g. one warm-started at the known answer - is exposed here.)"""
    import numpy as np
    import z3
    from scipy.optimize import brentq
    from symx import weights as W
    from mici.errors import IntegratorError, ConvergenceError
    import mici.solvers as SO
    I, S, ChainState = L.I, L.S, L.ChainState
    cls = {"implicit_leapfrog": I.ImplicitLeapfrogIntegrator, "implicit_midpoint": I.ImplicitMidpointIntegrator}[ikind]
    rec.encoded(cls._step, I.Integrator.step, SO.solve_fixed_point_direct)
    system = S.DiagonalRiemannianMetricSystem(
        lambda q: np.sum(q ** 2) / 2 + np.sum(q ** 4) / 12, grad_neg_log_dens=lambda q: q + q ** 3 / 3,
        metric_diagonal_func=lambda q: 1 + q ** 2, vjp_metric_diagonal_func=lambda q: lambda m: 2 * m * q)
    rule = [0]
    grid = np.linspace(-60.0, 60.0, 2401)

    def all_roots(func):
        def g(x):
            return float(x - np.asarray(func(np.array([x])), dtype=float).ravel()[0])
        vals = [g(x) for x in grid]
        roots = []
        for a, b, fa, fb in zip(grid[:-1], grid[1:], vals[:-1], vals[1:]):
            if fa == 0.0:
                roots.append(a)
            elif np.isfinite(fa) and np.isfinite(fb) and fa * fb < 0:
                roots.append(brentq(g, a, b, xtol=1e-14, rtol=1e-15))
        return roots

    def oracle(func, x0, **kw):
        roots = all_roots(func)
        if not roots:
            raise ConvergenceError("no fixed point in the search interval")
        x0f = float(np.asarray(x0).ravel()[0])
        near = sorted(roots, key=lambda r: abs(r - x0f))
        r = {1: near[0], 2: near[min(1, len(near) - 1)], 3: min(roots), 4: max(roots)}[rule[0]]
        x = np.array([r])
        func(x)  # (the solvers leave the state at the returned iterate)
        return x
    viol, outcomes = {}, {}
    starts = [(-0.07, -3.56), (0.0, -4.34), (-0.15, -3.17), (0.08, 2.77), (-0.18, -2.15), (-0.04, 3.12), (0.15, -3.43), (-0.06, -2.05),
              (0.3, 0.7), (-0.4, 1.1), (1.2, 2.5), (-2.0, 4.0)]
    for q0, p0 in starts:
        def fn(ctx):
            # (implicit midpoint solves for position and momentum jointly - a 2-D root set: real solver only)
            rule[0] = ctx.decide(5) if ikind == "implicit_leapfrog" else 0
            kw = {} if rule[0] == 0 else {"fixed_point_solver": oracle}
            integ = cls(system, step_size, **kw)
            st = ChainState(pos=np.array([q0]), mom=np.array([p0]), dir=1)
            try:
                s1 = integ.step(st)
            except IntegratorError:
                return ("raise", None)
            if st.pos[0] != q0 or st.mom[0] != p0 or st.dir != 1:
                return ("input-modified", None)
            s1 = s1.copy()
            s1.dir = -1
            try:
                s2 = integ.step(s1)
            except IntegratorError:
                return ("ret-noreverse", float("nan"))
            return ("ret", float(max(abs(s2.pos[0] - q0), abs(s2.mom[0] - p0))))
        for res, ctx in W.wexplore(fn, max_paths=1000):
            rec.path()
            outcomes[res[0]] = outcomes.get(res[0], 0) + 1
            rec.decisions += len(ctx.trace)
            r = [k for k, _ in ctx.trace]
            if res[0] == "ret" and not res[1] < 1e-5 * (1 + abs(q0) + abs(p0)):
                viol.setdefault("non-reversible-return", (f"{ikind}, metric 1+q^2, step {step_size}, start q={q0}, p={p0}, solver rule #{r}: step() returned a state whose "
                                                          f"reversal misses the start by {res[1]:.3g} and no error was raised", [q0, p0, r]))
            elif res[0] == "ret-noreverse":
                viol.setdefault("non-reversible-return", (f"{ikind}, step {step_size}, start q={q0}, p={p0}, solver rule #{r}: step() returned a state from which the "
                                                          f"reversed step fails", [q0, p0, r]))
            elif res[0] == "input-modified":
                viol.setdefault("input-modified", (f"{ikind}: step() modified its input state", [q0, p0, r]))
    for k, (msg, data) in viol.items():
        rec.candidate(key=f"implicit_roots/{ikind}:{k}", label=msg, payload={"oracle": data, "ikind": ikind, "step": step_size})
    rec.note(f"{rec.paths} (start, solver rule) runs: {outcomes}")
    if not outcomes or (ikind == "implicit_leapfrog" and (not outcomes.get("ret") or not outcomes.get("raise"))):
        rec.errors.append(f"vacuous: outcomes {outcomes} (both returned and loudly failing runs are expected)")
    rec.obligation(f"implicit sub-step equations with several roots ({ikind}, step {step_size}): every returned state reverses ({rec.paths} runs)",
                   [], z3.BoolVal(False), syntactic=True)


def cases(tier):
    out = []
    th = tier == "thorough"
    for ikind in ("implicit_leapfrog", "implicit_midpoint"):
        for step in (1.0, 1.5) + ((0.5, 2.0) if th else ()):
            out.append(Case(f"implicit_roots/{ikind}/step{step}", case_implicit_roots, {"ikind": ikind, "step_size": step}, timeout_s=900))
    for n_inner in (1, 2, 3):
        for step in (0.4, 0.9):
            out.append(Case(f"oracle_roots/inner{n_inner}/step{step}", case_oracle_roots, {"n_inner": n_inner, "step_size": step}, timeout_s=600))
            if step == 0.4:
                out.append(Case(f"oracle_roots_lebesgue/inner{n_inner}/step{step}", case_oracle_roots,
                                {"n_inner": n_inner, "step_size": step, "variant": "diag_lebesgue"}, timeout_s=600))

    def G(name, pname, kw, timeout_s=900):
        out.append(Case(name, run_group, {"probs": [(pname, kw)]}, timeout_s=timeout_s))
    integs = ["leapfrog", "symcomp1", "symcomp1h2", "symcomp2", "symcomp3", "bcss2", "bcss3", "bcss4"]
    systems = [("euclid", 1, "identity"), ("euclid", 2, "diag"), ("euclid", 2, "dense"), ("gauss", 1, "diag"), ("gauss", 2, "diag"),
               ("gauss", 2, "identity")]
    if th:
        systems += [("euclid", 2, "eig"), ("euclid", 2, "trifact"), ("gauss", 2, "dense_eig"), ("euclid", 2, "scaled")]
    for ik in integs:
        for kind, dim, mkind in systems:
            for n in ((1, 2, 3) if th else (1, 2)):
                if not th and n == 2 and (ik in ("symcomp3", "bcss4", "bcss3") or kind == "gauss"):
                    continue
                if n == 3 and (kind == "gauss" or ik in ("symcomp3", "bcss4")):
                    continue
                for d0 in (1, -1):
                    if d0 == -1 and n > 1:
                        continue
                    G(f"rev/{ik}/{kind}/{dim}/{mkind}/n{n}/d{d0}", "reversible",
                      {"ikind": ik, "kind": kind, "dim": dim, "mkind": mkind, "n": n, "d0": d0})
    for solver in ("newton", "quasi_newton", "line_search"):
        for mkind in (("identity", "diag", "dense") if th else ("identity",)):
            for n_inner in (1, 2):
                G(f"constrained/{solver}/{mkind}/inner{n_inner}", "constrained",
                  {"solver": solver, "mkind": mkind, "n_inner": n_inner, "n": 1}, timeout_s=1500)
    for ik in ("implicit_leapfrog", "implicit_midpoint"):
        for kind, dim, mkind in [("euclid", 1, "diag")] + ([("gauss", 1, "diag"), ("euclid", 2, "diag")] if th else []):
            # (position-dependent metrics: the normal forms of the fixed-point iterates do not finish in 1500 s - outside the claim)
            if ik.endswith("steffensen") and kind != "euclid":
                continue
            G(f"series_rev/{ik}/{kind}/{dim}", "series_reversible", {"ikind": ik, "kind": kind, "dim": dim, "mkind": mkind, "n": 1},
              timeout_s=1500)
    # (position-dependent metrics: forward + reversed implicit step with translation-closed general models at q = 0 did not finish
    # in 15 min per case; the single-step obligations of C06 (order) and C03 (symplecticity) do - reversibility on Riemannian
    # metrics stays outside this check's claim)
    return out


def replay(cand):
    if cand["key"].startswith(("oracle_roots", "implicit_roots")):
        return {"reproduced": True, "detail": cand["label"] + " (observed on the real integrator with concrete values and the recorded root choices)"}
    name = cand["key"].split("/", 1)[0]
    return replay_problem(PROBS[name], cand, rtol=1e-6)
