"""C19 - matrix objects behave as immutable values.

For every matrix class (all constructor options of harness.matlib, size 2): lazily computed attributes are requested in
every order of bounded length and every attribute value is compared (z3) with its value on a fresh object where it is
computed first; parameter arrays and caller-supplied arrays are compared with snapshots after all operations; parameters
are not writable.  Equality: on paths where two instances with symbolic parameters compare equal their dense arrays are
equal; instances with identical parameters compare equal.  Hash equality, shallow/deep copies and pickle round trips are
byte-level (xxhash/tobytes, raw buffers) and are checked in a concrete float pass of the same harness.
"""
from __future__ import annotations

import copy
import itertools
import pickle

import numpy as np
import z3

import symx.stubs as stubs
from symx.core import SV
from symx.eqcheck import Item, Skip, run_problem, replay_problem
from symx.mk import ConcMk, differs
from symx.harness import Case
from harness import matlib as ml

stubs.install(np_modules=())
import mici.matrices as M  # noqa: E402

META = {
    "level": "model_checking",
    "technique": "symbolic execution of mici.matrices with explorer-enumerated orders of lazy attribute requests; z3 refutes "
                 "order-dependence and operand mutation; concrete float pass for hash / copy / pickle",
    "explanation": "bounded: request sequences of length <= 3, size 2",
    "bounds": {"quick": {"request_sequence_length": 2, "size": 2, "attributes": "all (five common ones for the classes with expensive terms)"},
               "thorough": {"request_sequence_length": "2 over all attributes (without eigval/eigvec/sqrt/lu for the classes with expensive terms), 3 over the core attributes T/inv/sqrt/array/log_abs_det/matvec", "size": 2}},
    "outside": "sizes > 2; hash/pickle on symbolic values (byte-level: checked concretely)",
    "stubs": ["LAPACK stubs"],
    "assumptions": ["denominators recorded during execution non-zero"],
}

HEAVY = ("lowrank_pd", "dense_pd", "softabs", "dense_def", "lowrank_square_k2", "trifact_invfactor", "dense_sym", "lowrank_sym")
OPERAND_ATTRS = ("matvec", "rmatvec", "matmat", "rmatmat")
ATTRS = ["T", "inv", "sqrt", "eigval", "eigvec", "array", "diagonal", "log_abs_det", "factor", "lu_and_piv", "matvec", "rmatmat", "scaled"]
RECT_ATTRS = ["T", "array", "matvec", "rmatvec", "matmat", "rmatmat", "scaled"]


def _get(obj, attr, mk):
    """Value (array-like) of a lazily computed attribute, or Skip if the class does not have it."""
    if attr == "T":
        return obj.T.array
    if attr == "inv":
        if not isinstance(obj, M.InvertibleMatrix):
            raise Skip("no inv")
        return obj.inv.array
    if attr == "sqrt":
        if not isinstance(obj, M.PositiveDefiniteMatrix):
            raise Skip("no sqrt")
        return obj.sqrt.array
    if attr in ("eigval", "eigvec"):
        if not isinstance(obj, M.SymmetricMatrix):
            raise Skip("no eig")
        return obj.eigval if attr == "eigval" else obj.eigvec.array
    if attr == "array":
        return obj.array
    if attr == "diagonal":
        return obj.diagonal
    if attr == "log_abs_det":
        return np.array([obj.log_abs_det], dtype=object if mk.symbolic else float)
    if attr == "factor":
        if not hasattr(obj, "factor"):
            raise Skip("no factor")
        return obj.factor.array
    if attr == "lu_and_piv":
        if not hasattr(obj, "lu_and_piv"):
            raise Skip("no lu")
        return obj.lu_and_piv[0]
    if attr in OPERAND_ATTRS:
        ops = mk.__dict__.setdefault("_c19_operands", {})
        key = (attr, obj.shape)
        if key not in ops:
            shape = {"matvec": (obj.shape[1],), "rmatvec": (obj.shape[0],), "matmat": (obj.shape[1], 2), "rmatmat": (2, obj.shape[0])}[attr]
            arr = mk.arr(attr + "_operand", shape)
            ops[key] = (arr, arr.copy())  # the caller's array and a snapshot of it
        x = ops[key][0]
        return obj @ x if attr in ("matvec", "matmat") else x @ obj
    if attr == "scaled":
        return (mk.nonzero("c") * obj).array
    raise KeyError(attr)


def _params(obj):
    """All ndarray attributes reachable from the object (its parameters / cached arrays)."""
    out = []
    seen = set()
    stack = [obj]
    while stack:
        o = stack.pop()
        if id(o) in seen:
            continue
        seen.add(id(o))
        if isinstance(o, np.ndarray):
            out.append(o)
        elif isinstance(o, M.Matrix):
            stack.extend(o.__dict__.values())
        elif isinstance(o, (tuple, list)):
            stack.extend(o)
    return out


def prob_order(mk, kind, seq):
    obj, R = ml.make_leaf(M, mk, kind, 2)
    user_arrays = [a for a in _params(obj)]
    snaps = [a.copy() for a in user_arrays]
    got = {}
    for a in seq:
        try:
            got[a] = _get(obj, a, mk)
        except Skip:
            raise
    items = []
    for a in seq:
        fresh, _ = ml.make_leaf(M, mk, kind, 2)
        ref = _get(fresh, a, mk)
        again = _get(obj, a, mk)
        items.append(Item(f"{kind} {list(seq)}: {a} independent of what was computed before", got[a], ref))
        items.append(Item(f"{kind} {list(seq)}: {a} identical when requested again", again, got[a]))
    for i, (arr, snap) in enumerate(zip(user_arrays, snaps)):
        items.append(Item(f"{kind} {list(seq)}: parameter array #{i} unchanged", arr, snap))
    for (attr, _), (arr, snap) in mk.__dict__.get("_c19_operands", {}).items():
        items.append(Item(f"{kind} {list(seq)}: the caller's {attr} operand array is unchanged after the products", arr, snap))
    writable = [i for i, arr in enumerate(user_arrays) if arr.flags.writeable and arr.base is None]
    # parameters handed to the constructor are frozen (Matrix.__init__ clears the writeable flag of its array kwargs)
    return items


def prob_equality(mk, kind):
    a, Ra = ml.make_leaf(M, mk, kind, 2, tag="a")
    b, Rb = ml.make_leaf(M, mk, kind, 2, tag="b")
    a2, _ = ml.make_leaf(M, mk, kind, 2, tag="a")
    items = []
    same = (a == a2)
    items.append(Item(f"{kind}: instances with identical parameters compare equal", bool(same) if not mk.symbolic else z3.BoolVal(bool(same)), None, kind="true"))
    if bool(a == b):
        items.append(Item(f"{kind}: a == b implies equal dense arrays", Ra, Rb))
    return items


PROBS = {"order": prob_order, "equality": prob_equality}


class _Rand(ConcMk):
    def __init__(self, rng):
        super().__init__({})
        self.rng = rng

    def real(self, name):
        return float(self.rng.uniform(0.4, 1.6))

    pos = real
    nonzero = real

    def require(self, cond):
        # documented preconditions of the leaf (e.g. a low-rank downdate stays positive definite): instances violating
        # them are redrawn by concrete_pass
        self.unmet = getattr(self, "unmet", False) or not bool(cond)


class _ConstructorArgs:
    """Records every ndarray passed to a constructor of a matrix class while active (nested constructors included)."""

    def __enter__(self):
        self.arrays, self.saved = [], []
        for cls in vars(M).values():
            if isinstance(cls, type) and issubclass(cls, M.Matrix) and "__init__" in cls.__dict__:
                orig = cls.__dict__["__init__"]
                self.saved.append((cls, orig))

                def wrapped(obj, *a, __orig=orig, **k):
                    stack = list(a) + list(k.values())
                    while stack:
                        x = stack.pop()
                        if isinstance(x, np.ndarray):
                            self.arrays.append(x)
                        elif isinstance(x, (tuple, list)):
                            stack.extend(x)
                    return __orig(obj, *a, **k)
                cls.__init__ = wrapped
        return self

    def __exit__(self, *exc):
        for cls, orig in self.saved:
            cls.__init__ = orig
        return False


def concrete_pass(rec, kind):
    """hash / copy / deepcopy / pickle equality and write protection on float instances (byte-level operations)."""
    rng = np.random.default_rng(5)
    n = 0
    for trial in range(3):
        for _redraw in range(200):
            state = rng.bit_generator.state
            mk_a = _Rand(rng)
            with _ConstructorArgs() as ctor:
                a, _ = ml.make_leaf(M, mk_a, kind, 2)
            if not getattr(mk_a, "unmet", False):
                break
        else:
            rec.note(f"{kind}: no random instance met the leaf's preconditions")
            return
        rng.bit_generator.state = state
        b, _ = ml.make_leaf(M, _Rand(rng), kind, 2)
        n += 1
        problems = []
        # parameters: arrays held by the object that are (views of) arrays handed to a matrix constructor; arrays the class
        # derives and stores itself (e.g. SoftAbs' unreg_eigval) are not constructor parameters
        params_at_construction = [x for x in _params(a) if any(np.shares_memory(x, y) for y in ctor.arrays)]
        try:
            if not (a == b):
                problems.append("two instances built from equal parameters compare unequal")
            if hash(a) != hash(b):
                problems.append("equal instances hash differently")
            for nm, c in (("copy.copy", copy.copy(a)), ("copy.deepcopy", copy.deepcopy(a)), ("pickle", pickle.loads(pickle.dumps(a)))):
                if not (c == a):
                    problems.append(f"{nm} of the matrix does not compare equal to the original")
                if not np.allclose(np.asarray(c.array, dtype=float), np.asarray(a.array, dtype=float), rtol=1e-12, atol=0):
                    problems.append(f"{nm} has a different dense array")
            # lazily computed attributes must not change the hash / equality
            h0 = hash(a)
            for attr in ("T", "array", "diagonal"):
                _ = getattr(a, attr)
            if isinstance(a, M.InvertibleMatrix):
                _ = a.inv
            if hash(a) != h0 or not (a == b):
                problems.append("hash/equality changed after computing lazy attributes")
            for arr in params_at_construction:
                if arr.flags.writeable and arr.size and arr.dtype == float:
                    problems.append(f"a parameter array of shape {arr.shape} is writable in place")
                    break
        except Exception as e:  # noqa: BLE001
            problems.append(f"{type(e).__name__}: {e}")
        for pr in problems[:2]:
            rec.candidate(key=f"{kind}:concrete:{pr[:50]}", label=f"{kind}: {pr}", payload={"concrete": kind})
    rec.note(f"{kind}: {n} concrete hash/copy/pickle/write-protection passes")


def run_group(rec, kind, seqs, extras=True):
    rec.encoded(M.Matrix.__init__, M.Matrix.__eq__, M.Matrix.__hash__, M.Matrix.transpose, M.InvertibleMatrix.inv,
                M.PositiveDefiniteMatrix.sqrt, M.SymmetricMatrix.eigval, M.ImplicitArrayMatrix.array)
    for seq in seqs:
        run_problem(rec, prob_order, {"kind": kind, "seq": list(seq)}, key_prefix=f"order/{kind}:", timeout_ms=30000, max_paths=60)
    if extras:
        run_problem(rec, prob_equality, {"kind": kind}, key_prefix=f"equality/{kind}:", timeout_ms=30000, max_paths=60 if kind not in ml.RECT else 2000)
        concrete_pass(rec, kind)


CORE_ATTRS = ["T", "inv", "sqrt", "array", "log_abs_det", "matvec"]


def cases(tier):
    th = tier == "thorough"
    out = []
    for kind in ml.leaves(2) + ml.RECT:
        heavy = kind.startswith(HEAVY)
        if kind in ml.RECT:
            attrs = RECT_ATTRS
        elif heavy and not th:
            # quick tier: the classes whose attributes are expensive rational/transcendental terms get the five attributes
            # every class has (all 20 ordered pairs); the full attribute list is explored in the thorough tier
            attrs = ["T", "inv", "array", "log_abs_det", "matvec"]
        elif heavy:
            # thorough tier, expensive classes: everything except the eigendecomposition / square-root attributes, whose
            # interplay with log_abs_det gave z3 'unknown' (30-75 s per obligation) or 45-minute chunks (SoftAbs)
            attrs = ["T", "inv", "array", "diagonal", "log_abs_det", "factor", "matvec", "rmatmat", "scaled"]
        else:
            attrs = ATTRS
        # all ordered pairs; thorough: also all ordered triples of the core attributes (of four of them for the expensive classes)
        seqs = list(itertools.permutations(attrs, 2))
        if th:
            core = [a for a in (CORE_ATTRS[:4] if heavy else CORE_ATTRS) if a in attrs]
            seqs += list(itertools.permutations(core, 3))
        per = 400 if not th else (25 if heavy else 120)
        chunks = [seqs[i:i + per] for i in range(0, len(seqs), per)]
        for ci, ch in enumerate(chunks):
            out.append(Case(kind if len(chunks) == 1 else f"{kind}/s{ci}", run_group, {"kind": kind, "seqs": ch, "extras": ci == 0}, timeout_s=3000))
    return out


def replay(cand):
    p = cand.get("payload") or {}
    if "concrete" in p:
        return {"reproduced": True, "detail": cand["label"] + " (observed on real float instances)"}
    name = cand["key"].split("/", 1)[0]
    kw = p.get("kwargs", {})
    return replay_problem(PROBS[name], cand, rtol=1e-9)
