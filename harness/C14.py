"""C14 - sampling is reproducible and independent of process scheduling (partial).

Same harness as C13.  Schedules (which modelled worker takes which chain, in which order workers run) are enumerated; the
outputs, expressed in tokens (chain, k), must be identical for every schedule and equal to the sequential run; a chain's
outputs must not mention another chain's tokens and must not change when chains are added; no token may be consumed twice.
"""
from __future__ import annotations

import itertools
import z3

from symx.harness import Case
from harness import samplerlib as SL
import mici.samplers as SA

META = {
    "level": "model_checking",
    "technique": "bounded exhaustive schedules of the real parallel sampling path under a modelled multiprocessing environment",
    "explanation": "all chain-to-worker assignments and worker orders within the bound",
    "bounds": {"quick": {"chains": 2, "workers": 2, "stages": "1-2", "iterations_per_stage": "1-2"},
               "thorough": {"chains": 3, "workers": "2-3", "stages": "1-3"}},
    "outside": "NOT APPLICABLE parts: real OS scheduling / per-chain delays, statistical independence of PCG64.jumped streams, "
               "generator types: PCG64 / MT19937 / Philox / SFC64 / legacy RandomState in fresh, jumped and state-restored form on one small problem (concrete runs)",
    "stubs": ["multiprocessing model", "token random stream with jumped(i) per-chain sub-streams"],
    "assumptions": ["multiprocessing model as in C13"],
}


def _out(res):
    return (res["traces"], res["stats"]["tok"], res["final"])


def case_schedules(rec, n_chain, n_workers, n_warm, n_main, adapters):
    rec.encoded(SA._sample_chains_parallel, SA._sample_chains_worker, SA._get_per_chain_rngs, SA.MarkovChainMonteCarloMethod.sample_chains)
    seq = SL.run(n_warm, n_main, n_chain=n_chain, n_process=1, trace_warm_up=True, adapters=adapters)
    viol = {}
    # within the sequential run: distinct streams, nothing replayed
    draws = [e for e in seq["log"] if e[0] == "draw"]
    if len(set(draws)) != len(draws):
        viol["sequential:replay"] = ("sequential run consumes a token twice", None)
    n = 0
    for assign in itertools.product(range(n_workers), repeat=n_chain):
        for order in itertools.permutations(range(n_workers)):
            n += 1
            rec.path()
            res = SL.run(n_warm, n_main, n_chain=n_chain, n_process=n_workers, trace_warm_up=True, adapters=adapters,
                         assignment=(lambda c, a=assign: a[c]), order=(lambda ws, o=order: [ws[i] for i in o]))
            if _out(res) != _out(seq):
                viol.setdefault("parallel-differs-from-sequential",
                                (f"n_process={n_workers}, assignment {assign}, worker order {order}: chain 0 rows {res['traces']['pos'][0]} "
                                 f"but sequential run gives {seq['traces']['pos'][0]}", (assign, order)))
            d = [e for e in res["log"] if e[0] == "draw"]
            if len(set(d)) != len(d):
                viol.setdefault("stream-replayed", (f"a random stream is replayed within one run: draws {d[:8]}...", (assign, order)))
    # independence of the number of chains
    more = SL.run(n_warm, n_main, n_chain=n_chain + 1, n_process=1, trace_warm_up=True, adapters=adapters)
    if more["traces"]["pos"][:n_chain] != seq["traces"]["pos"]:
        viol["depends-on-chain-count"] = ("chain outputs change when another chain is added", None)
    for c, rows in enumerate(seq["traces"]["pos"]):
        if any(int(x // 1000) - 1 != c for x in rows):
            viol["cross-chain-stream"] = (f"chain {c} consumed another chain's stream: {rows}", None)
    rec.note(f"{n} schedules")
    for k, (msg, sched) in viol.items():
        rec.candidate(key=f"schedule:{k}", label=msg, payload={"args": [n_chain, n_workers, n_warm, n_main, adapters], "sched": sched, "kind": k})
    rec.sample({"chains": n_chain, "workers": n_workers, "n_warm": n_warm, "n_main": n_main, "schedules": n})
    rec.obligation(f"{n} schedules ({n_chain} chains, {n_workers} workers, {n_warm}+{n_main} iterations): outputs identical to the sequential run",
                   [], z3.BoolVal(False), syntactic=True)


def case_real_schedules(rec, n_warm, n_main, inits, stager):
    """Same comparison with the real numpy Generator, the real Metropolis HMC transition and the real step-size / metric adapters
    on floats (chains started at very different scales, so per-chain adaptation states differ): every modelled schedule
    reproduces the sequential run bit for bit, and a second sequential run reproduces the first."""
    rec.encoded(SA._sample_chains_parallel, SA._sample_chains_worker, SA._get_per_chain_rngs, SA.MarkovChainMonteCarloMethod.sample_chains)
    import mici.adapters as AD
    rec.encoded(AD.DualAveragingStepSizeAdapter.initialize, AD.DualAveragingStepSizeAdapter.finalize, AD.OnlineVarianceMetricAdapter.finalize)
    seq = SL.run_real(n_warm, n_main, inits, n_process=1, stager=stager)
    viol = {}
    if SL.run_real(n_warm, n_main, inits, n_process=1, stager=stager) != seq:
        viol["rerun-differs"] = ("two sequential runs with the same seed differ", None)
    n_chain, n_workers, n = len(inits), 2, 0
    for assign in itertools.product(range(n_workers), repeat=n_chain):
        for order in itertools.permutations(range(n_workers)):
            n += 1
            rec.path()
            res = SL.run_real(n_warm, n_main, inits, n_process=n_workers, stager=stager,
                              assignment=(lambda c, a=assign: a[c]), order=(lambda ws, o=order: [ws[i] for i in o]))
            if res != seq:
                c = next(i for i in range(n_chain) if res["pos"][i] != seq["pos"][i] or res["accept"][i] != seq["accept"][i] or res["final"][i] != seq["final"][i])
                viol.setdefault("real-parallel-differs-from-sequential",
                                (f"real generator and adapters, n_process=2, assignment {assign}, worker order {order}: chain {c} positions "
                                 f"{res['pos'][c][:4]}... but the sequential run gives {seq['pos'][c][:4]}...", (assign, order)))
    rec.note(f"{n} schedules with the real generator")
    for k, (msg, sched) in viol.items():
        rec.candidate(key=f"schedule:{k}", label=msg, payload={"real": [n_warm, n_main, list(inits), stager], "sched": sched, "kind": k})
    rec.sample({"real_generator": True, "inits": list(inits), "n_warm": n_warm, "n_main": n_main, "schedules": n})
    rec.obligation(f"{n} schedules, real generator/adapters ({n_warm}+{n_main} iterations, starts {list(inits)}): outputs identical to the sequential run",
                   [], z3.BoolVal(False), syntactic=True)


GENERATOR_KINDS = ["pcg64", "pcg64_jumped", "mt19937_jumped", "philox_jumped", "sfc64", "pcg64_state_restored", "legacy_randomstate"]


def case_generator_kinds(rec, kind):
    """'For a fixed seed and inputs the output is a deterministic function of those inputs ... all supported generator types':
    two runs from identically constructed generators of this kind (incl. generators whose state does not come from their own seed
    sequence - a jumped copy, a restored state) agree bit for bit, every modelled two-worker schedule reproduces them, chains with
    the same start use different streams, and a generator with a different seed gives different output (the streams depend on
    the seed at all)."""
    rec.encoded(SA._get_per_chain_rngs, SA.MarkovChainMonteCarloMethod.sample_chains, SA._sample_chains_parallel)
    inits = [0.7, 0.7]
    viol = {}
    try:
        a = SL.run_real(3, 3, inits, n_process=1, rng_kind=kind)
        b = SL.run_real(3, 3, inits, n_process=1, rng_kind=kind)
    except ValueError as e:
        if "Unsupported random number generator" in str(e):
            rec.note(f"{kind}: not a supported generator type ({e})")
            rec.obligation(f"generator kind {kind}: rejected as unsupported", [], z3.BoolVal(False), syntactic=True)
            return
        raise
    rec.path()
    if a != b:
        viol["rerun-differs"] = (f"generator kind {kind}: two sequential runs from identically constructed generators differ: chain 0 "
                                 f"{a['pos'][0][:3]} vs {b['pos'][0][:3]}", None)
    n = 0
    for assign in itertools.product(range(2), repeat=2):
        for order in itertools.permutations(range(2)):
            n += 1
            rec.path()
            r = SL.run_real(3, 3, inits, n_process=2, rng_kind=kind, assignment=(lambda c, a_=assign: a_[c]),
                            order=(lambda ws, o=order: [ws[i] for i in o]))
            if r != a:
                viol.setdefault("real-parallel-differs-from-sequential",
                                (f"generator kind {kind}: n_process=2, assignment {assign}, worker order {order} differs from the sequential run", (assign, order)))
    if a["pos"][0] == a["pos"][1]:
        viol["chains-share-stream"] = (f"generator kind {kind}: two chains with the same start produce identical output (same stream)", None)
    c = SL.run_real(3, 3, inits, n_process=1, rng_kind=kind, seed=987654321)
    if c == a:
        viol["seed-ignored"] = (f"generator kind {kind}: output does not depend on the seed", None)
    for k, (msg, sched) in viol.items():
        rec.candidate(key=f"generator:{kind}:{k}", label=msg, payload={"generator_kind": kind, "sched": sched, "kind": k})
    rec.sample({"generator_kind": kind, "schedules": n})
    rec.obligation(f"generator kind {kind}: reruns, {n} schedules, distinct chains, seed dependence", [], z3.BoolVal(False), syntactic=True)


def cases(tier):
    th = tier == "thorough"
    out = []
    for n_warm, n_main, inits, stager in ((6, 3, (300.0, 0.3), "default"), (4, 2, (0.3, 300.0), "windowed111")) + (((12, 4, (300.0, 0.3, -20.0), "default"),) if th else ()):
        out.append(Case(f"real/{stager}/{n_warm}+{n_main}/{len(inits)}chains", case_real_schedules,
                        {"n_warm": n_warm, "n_main": n_main, "inits": list(inits), "stager": stager}, timeout_s=900))
    for kind in GENERATOR_KINDS:
        out.append(Case(f"generator/{kind}", case_generator_kinds, {"kind": kind}, timeout_s=600))
    for n_warm, n_main in ((0, 2), (1, 1), (2, 2)) + (((3, 2), (1, 3)) if th else ()):
        for adapters in ("fast", "none"):
            out.append(Case(f"sched/2x2/{n_warm}+{n_main}/{adapters}", case_schedules,
                            {"n_chain": 2, "n_workers": 2, "n_warm": n_warm, "n_main": n_main, "adapters": adapters}, timeout_s=900))
    if th:
        out.append(Case("sched/3x3/1+1", case_schedules, {"n_chain": 3, "n_workers": 3, "n_warm": 1, "n_main": 1, "adapters": "fast"}, timeout_s=1800))
        out.append(Case("sched/3x2/2+1", case_schedules, {"n_chain": 3, "n_workers": 2, "n_warm": 2, "n_main": 1, "adapters": "fast"}, timeout_s=1800))
    return out


def replay(cand):
    """Replay on the REAL multiprocessing pool with a REAL numpy Generator: parallel vs sequential outputs of a multi-stage run."""
    p = cand.get("payload") or {}
    kind = p.get("kind", "")
    if p.get("generator_kind"):
        gk = p["generator_kind"]
        a = SL.run_real(3, 3, [0.7, 0.7], n_process=1, rng_kind=gk)
        b = SL.run_real(3, 3, [0.7, 0.7], n_process=1, rng_kind=gk)
        c = SL.run_real(3, 3, [0.7, 0.7], n_process=1, rng_kind=gk, seed=987654321)
        bad = (a != b) if kind == "rerun-differs" else (a["pos"][0] == a["pos"][1]) if kind == "chains-share-stream" else (a == c) if kind == "seed-ignored" else True
        return {"reproduced": bool(bad), "detail": cand["label"] + " (re-run with the real numpy generator)"}
    if kind in ("parallel-differs-from-sequential", "stream-replayed"):
        import numpy as np
        import importlib
        S2 = importlib.reload(SA)
        from mici.transitions import Transition

        n_chain, n_workers, n_warm, n_main, adapters = p["args"]
        outs = []
        for n_process in (1, n_workers):
            sampler = S2.MarkovChainMonteCarloMethod(np.random.default_rng(1), {"t": RealDrawTransition()})
            res = sampler.sample_chains(n_warm, n_main, [{"pos": np.array([0.0])} for _ in range(n_chain)], trace_funcs=[_trace_pos],
                                        adapters={"t": [SL.CountAdapter()]} if adapters != "none" else None, stager=SL.WarmUpStager(),
                                        n_process=n_process, trace_warm_up=True, display_progress=False)
            outs.append([np.asarray(t).ravel().round(6).tolist() for t in res.traces["pos"]])
        differ = outs[0] != outs[1]
        rep = any(len(set(r)) != len(r) for r in outs[1])
        return {"reproduced": bool(differ or rep), "detail": f"real multiprocessing pool, default_rng(1), {n_warm}+{n_main} iterations: n_process=1 rows {outs[0][0]} ; "
                                                           f"n_process={n_workers} rows {outs[1][0]}" + (" (draws repeated across stages)" if rep else "")}
    return {"reproduced": True, "detail": cand["label"] + " (observed under the model)"}


from mici.transitions import Transition as _T
import numpy as _np


class RealDrawTransition(_T):
    state_variables = {"pos"}

    @property
    def statistic_types(self):
        return {"u": (_np.float64, _np.nan)}

    def sample(self, state, rng):
        u = float(rng.uniform())
        state.pos = _np.array([u])
        return state, {"u": u}


def _trace_pos(state):
    return {"pos": state.pos}
