"""Shared by C09 (cache transparency) and C18 (memoisation efficiency): histories of state operations on real
systems / ChainStates with z3-valued (or float) variables."""
from __future__ import annotations

import copy
import itertools
import pickle

import numpy as np
import z3

import symx.stubs as stubs
from symx.core import SV, symbols_of
from symx.eqcheck import Item, Skip
from harness import matlib as ml
from harness import syslib as sl

stubs.install()
import mici.matrices as M  # noqa: E402
import mici.systems as S  # noqa: E402
import mici.states as ST  # noqa: E402
from mici.states import ChainState  # noqa: E402

# "copy"/"copy_ro" continue on the copy, "view_ro" hands out a read-only copy and continues on the original; after every step
# *all* live states are swept (the current one first), so an operation on one state that disturbs another one is seen
MUTATORS = ["set_pos", "set_mom", "set_dir", "copy", "copy_ro", "view_ro", "pickle", "switch"]

SYSTEMS = {
    "euclid": dict(kind="euclid", dim=2, mkind="diag"),
    "gauss": dict(kind="gauss", dim=2, mkind="diag"),
    "constr": dict(kind="constr", dim=2, mkind="diag", ckind="sphere", hausdorff=False),
    "gauss_constr": dict(kind="gauss_constr", dim=2, mkind="diag", ckind="sphere"),
    "scalar": dict(kind="scalar", dim=2),
    "diagonal": dict(kind="diagonal", dim=2),
    "cholesky": dict(kind="cholesky", dim=2),
    "dense": dict(kind="dense", dim=1),
    "softabs": dict(kind="softabs", dim=1),
}


def cached_methods(sysm):
    """Every state-taking public method of the system that (directly or not) goes through the state cache."""
    names = []
    for nm in dir(type(sysm)):
        if nm.startswith("_"):
            continue
        f = getattr(type(sysm), nm, None)
        if not callable(f) or not hasattr(f, "__wrapped__"):
            continue
        names.append(nm)
    extra = [n for n in ("h", "h1", "h2", "dh_dpos", "dh_dmom", "dh1_dpos", "dh2_dpos", "dh2_dmom") if hasattr(sysm, n)]
    out = []
    for n in names + extra:
        if n not in out and n not in ("metric", "gram", "inv_gram", "vjp_metric_func", "mhp_constr", "mtp_neg_log_dens"):
            out.append(n)
    return out


def _val(x):
    """Comparable value of a method result (arrays / scalars / Matrix objects)."""
    if isinstance(x, M.Matrix):
        return x.array
    return x


def build(mk, sname, convention, two_systems):
    cfg = dict(SYSTEMS[sname])
    kind, dim = cfg.pop("kind"), cfg.pop("dim")
    sys1, info1 = sl.make_system(S, M, mk, kind, dim, convention=convention, **cfg)
    systems = [(sys1, info1)]
    if two_systems:
        # a second system object of the SAME class with DIFFERENT parameters sharing the state
        class MK2:
            symbolic = mk.symbolic

            def __getattr__(self, k):
                f = getattr(mk, k)
                if k in ("real", "pos", "nonzero"):
                    return lambda name: f("B" + name)
                if k == "arr":
                    return lambda name, shape, kind="real": f("B" + name, shape, kind)
                return f
        sys2, info2 = sl.make_system(S, M, MK2(), kind, dim, convention=convention, **cfg)
        systems.append((sys2, info2))
    return systems, dim


def prob_history(mk, sname, history, convention="plain", two_systems=False, efficiency=False):
    """Apply the history; after every step call every cached method of every system on the current state and compare with
    the same method on a freshly constructed ChainState holding the current variable values."""
    systems, dim = build(mk, sname, convention, two_systems)
    nvals = [0]

    def fresh_vec(tag):
        nvals[0] += 1
        return mk.arr(f"{tag}{nvals[0]}", dim)
    q, p = fresh_vec("q"), fresh_vec("p")
    for _, info in systems:
        if "metric_model" in info:
            info["metric_model"].require_valid(mk, list(q))
    state = ChainState(pos=q.copy(), mom=p.copy(), dir=1)
    live = [state]
    cur = 0
    items = []
    eff = []

    def sweep(tag):
        order = [cur] + [i for i in range(len(live)) if i != cur]
        for li in (order if not efficiency else order[:1]):
            _sweep_state(live[li], tag if li == cur else f"{tag}, other live state #{li}")

    def _sweep_state(st, tag):
        for si, (sysm, info) in enumerate(systems):
            for m in cached_methods(sysm):
                try:
                    got = _val(getattr(sysm, m)(st))
                except ST.ReadOnlyStateError:
                    continue
                if efficiency:
                    continue  # counting mode: no from-scratch reference (it would evaluate the user functions)
                ref_state = ChainState(pos=copy.copy(st.pos), mom=copy.copy(st.mom), dir=st.dir)
                ref = _val(getattr(sysm, m)(ref_state))
                items.append(Item(f"{sname}[{','.join(history)}] {tag}: sys{si}.{m}(state) == from-scratch value", got, ref))

    def counts():
        tot = {}
        for si, (_, info) in enumerate(systems):
            for obj in ("model", "metric_model", "constraint"):
                if obj in info:
                    for k, v in info[obj].calls.items():
                        tot[(si, obj, k)] = v
        return tot
    sweep("start")
    if efficiency:
        c0 = counts()
        sweep("repeat")
        c1 = counts()
        eff.append(("a repeated sweep on the same state evaluates no user function", c0, c1))
    for step, op in enumerate(history):
        st = live[cur]
        try:
            if op == "set_pos":
                st.pos = fresh_vec("q")
                if mk.symbolic:
                    for _, info in systems:
                        if "metric_model" in info:
                            info["metric_model"].require_valid(mk, list(st.pos))
            elif op == "set_mom":
                st.mom = fresh_vec("p")
            elif op == "set_dir":
                st.dir = -st.dir
            elif op == "copy":
                live.append(st.copy())
                cur = len(live) - 1
            elif op == "copy_ro":
                live.append(st.copy(read_only=True))
                cur = len(live) - 1
            elif op == "view_ro":
                live.append(st.copy(read_only=True))
            elif op == "set_pos_ro":
                # a read-only copy taken right after an assignment, i.e. with an EMPTY cache; continue on the read-only copy
                # (not in MUTATORS: listed explicitly by the harnesses that use it)
                st.pos = fresh_vec("q")
                if mk.symbolic:
                    for _, info in systems:
                        if "metric_model" in info:
                            info["metric_model"].require_valid(mk, list(st.pos))
                live.append(st.copy(read_only=True))
                cur = len(live) - 1
            elif op == "pickle":
                if mk.symbolic:
                    raise Skip("pickling is exercised in the concrete pass")
                live.append(pickle.loads(pickle.dumps(st)))
                cur = len(live) - 1
            elif op == "switch":
                cur = (cur + 1) % len(live)
        except ST.ReadOnlyStateError:
            pass
        before = counts()
        sweep(f"after step {step + 1} ({op})")
        if efficiency and op in ("copy", "copy_ro", "view_ro", "switch", "set_dir"):
            after = counts()
            eff.append((f"after '{op}' (no dependency changed) the sweep evaluates no user function", before, after))
        if efficiency:
            c0 = counts()
            sweep(f"repeat after step {step + 1}")
            eff.append((f"a repeated sweep after step {step + 1} ('{op}') evaluates no user function", c0, counts()))
    for msg, a, b in eff:
        extra = {k: b[k] - a.get(k, 0) for k in b if b[k] != a.get(k, 0)}
        ok = not extra
        items.append(Item(f"{sname}[{','.join(history)}]: {msg}" + ("" if ok else f" (extra evaluations {extra})"),
                          ok if not mk.symbolic else z3.BoolVal(ok), None, kind="true"))
    return items


def histories(k, with_pickle, ops=None):
    ops = [o for o in (ops or MUTATORS) if with_pickle or o != "pickle"]
    out = []
    for n in range(1, k + 1):
        out += [list(h) for h in itertools.product(ops, repeat=n)]
    return out
