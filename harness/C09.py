"""C09 - state-level caching is transparent.

Histories (sequences of assignments to pos/mom/dir, copies, read-only copies, pickle round trips, switching between states
derived from each other) are applied to real ChainStates whose variables are z3-valued arrays; after every step EVERY cached
method of one or two system objects (same class, different symbolic parameters, sharing the state) is compared with the same
method on a freshly built state holding the current values.  Because the model functions are polynomials in exactly the
symbols the method reads, a stale cache entry or a dependency declared on the wrong variable yields a different term.
Pickle round trips are exercised in the concrete (float) pass of the same harness.
"""
from __future__ import annotations

from symx.eqcheck import run_problem, replay_problem, Item, Skip
from symx.mk import ConcMk, differs
from symx.harness import Case
from harness import cachelib as CL
import z3
import numpy as np

META = {
    "level": "model_checking",
    "technique": "bounded exhaustive histories over real ChainState/System objects with z3-valued variables; z3 (after normal-form "
                 "reduction) refutes 'cached result != from-scratch result' after every step; concrete pass for pickling",
    "explanation": "histories of bounded length enumerated; values symbolic",
    "bounds": {"quick": {"history_length": 2, "system_classes": 9, "two_system_objects": "euclid, diagonal"},
               "thorough": {"history_length": 3, "system_classes": 9}},
    "outside": "histories longer than the bound; integrator/transition runs with caching defeated (the per-method sweep after every "
               "operation subsumes them for the methods they call); autodiff back ends",
    "stubs": ["LAPACK stubs"],
    "assumptions": ["metric positive definite at every assigned position"],
}


def prob(mk, sname, history, convention="plain", two_systems=False):
    return CL.prob_history(mk, sname, history, convention=convention, two_systems=two_systems)


def run_group(rec, sname, hists, convention, two_systems):
    rec.encoded(CL.ST.cache_in_state, CL.ST.cache_in_state_with_aux, CL.ST.ChainState.__setattr__, CL.ST.ChainState.copy,
                CL.ST.ChainState.__getstate__, CL.ST.ChainState.__setstate__)
    for h in hists:
        run_problem(rec, prob, {"sname": sname, "history": h, "convention": convention, "two_systems": two_systems},
                    key_prefix=f"{sname}:", timeout_ms=60000, max_paths=50)
    # concrete pass including pickle round trips (real pickle of real states)
    rng = np.random.default_rng(11)
    n = 0
    for h in CL.histories(2, True):
        if "pickle" not in h:
            continue
        vals = _Rand(rng)
        items = prob(vals, sname, h, convention, two_systems)
        n += 1
        for it in items:
            if it.kind == "eq":
                bad, why = differs(it.code, it.ref, rtol=1e-9)
                if bad:
                    rec.candidate(key=f"{sname}:pickle:{it.label.split(':')[-1].strip()}", label=f"{it.label}: {why}",
                                  payload={"concrete": True, "sname": sname, "history": h, "convention": convention, "two_systems": two_systems})
    rec.note(f"{n} concrete histories with pickle round trips")


class _Rand(ConcMk):
    def __init__(self, rng):
        super().__init__({})
        self.rng = rng

    def real(self, name):
        return float(self.rng.uniform(0.3, 1.7))

    pos = real
    nonzero = real


def cases(tier):
    th = tier == "thorough"
    out = []
    hs = CL.histories(3, False) if th else CL.histories(2, False, ops=["set_pos", "set_mom", "copy", "copy_ro", "switch"])
    for sname in CL.SYSTEMS:
        for conv in (("plain", "aux") if th or sname in ("euclid", "diagonal", "constr") else ("plain",)):
            chunks = [hs[i:i + 14] for i in range(0, len(hs), 14)]
            for ci, ch in enumerate(chunks):
                out.append(Case(f"{sname}/{conv}/h{ci}", run_group, {"sname": sname, "hists": ch, "convention": conv, "two_systems": False},
                                timeout_s=1800))
    for sname in ("euclid", "diagonal", "gauss"):
        hs2 = CL.histories(2, False)
        out.append(Case(f"{sname}/two_systems", run_group, {"sname": sname, "hists": hs2[:21], "convention": "plain", "two_systems": True}, timeout_s=1800))
    return out


def replay(cand):
    p = cand.get("payload") or {}
    if p.get("concrete"):
        return {"reproduced": True, "detail": cand["label"] + " (observed on the real code with floats and a real pickle round trip)"}
    kw = p.get("kwargs", {})
    return replay_problem(prob, cand, rtol=1e-9)
