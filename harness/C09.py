"""C09 - state-level caching is transparent.

Histories (sequences of assignments to pos/mom/dir, copies, read-only copies, pickle round trips, switching between states
derived from each other) are applied to real ChainStates whose variables are z3-valued arrays; after every step EVERY cached
method of one or two system objects (same class, different symbolic parameters, sharing the state) is compared with the same
method on a freshly built state holding the current values.  Because the model functions are polynomials in exactly the
symbols the method reads, a stale cache entry or a dependency declared on the wrong variable yields a different term.
Pickle round trips are exercised in the concrete (float) pass of the same harness.
"""
from __future__ import annotations

from symx.eqcheck import run_problem, replay_problem, Item, Skip
from symx.mk import ConcMk, differs
from symx.harness import Case
from harness import cachelib as CL
import z3
import numpy as np

META = {
    "level": "model_checking",
    "technique": "bounded exhaustive histories over real ChainState/System objects with z3-valued variables; z3 (after normal-form "
                 "reduction) refutes 'cached result != from-scratch result' after every step; concrete pass for pickling",
    "explanation": "histories of bounded length enumerated; values symbolic",
    "bounds": {"quick": {"history_length": 2, "system_classes": 9, "two_system_objects": "euclid, diagonal"},
               "thorough": {"history_length": 3, "system_classes": 9}},
    "outside": "histories longer than the bound; autodiff back ends; the integrator/transition comparison with caching defeated "
               "is a concrete (float) pass over all system classes, not a symbolic one",
    "stubs": ["LAPACK stubs"],
    "assumptions": ["metric positive definite at every assigned position"],
}


def prob(mk, sname, history, convention="plain", two_systems=False):
    return CL.prob_history(mk, sname, history, convention=convention, two_systems=two_systems)


def run_group(rec, sname, hists, convention, two_systems):
    rec.encoded(CL.ST.cache_in_state, CL.ST.cache_in_state_with_aux, CL.ST.ChainState.__setattr__, CL.ST.ChainState.copy,
                CL.ST.ChainState.__getstate__, CL.ST.ChainState.__setstate__)
    for h in hists:
        run_problem(rec, prob, {"sname": sname, "history": h, "convention": convention, "two_systems": two_systems},
                    key_prefix=f"{sname}:", timeout_ms=60000, max_paths=50)
    # concrete pass including pickle round trips (real pickle of real states)
    rng = np.random.default_rng(11)
    n = 0
    for h in CL.histories(2, True):
        if "pickle" not in h:
            continue
        vals = _Rand(rng)
        items = prob(vals, sname, h, convention, two_systems)
        n += 1
        for it in items:
            if it.kind == "eq":
                bad, why = differs(it.code, it.ref, rtol=1e-9)
                if bad:
                    rec.candidate(key=f"{sname}:pickle:{it.label.split(':')[-1].strip()}", label=f"{it.label}: {why}",
                                  payload={"concrete": True, "sname": sname, "history": h, "convention": convention, "two_systems": two_systems})
    rec.note(f"{n} concrete histories with pickle round trips")


class NoCache(dict):
    """A state cache that never reports a hit: every cached method recomputes (caching defeated)."""

    def __contains__(self, k):
        return False

    def copy(self):
        return NoCache()


def case_defeated(rec):
    """Integrator steps and whole transitions with caching defeated vs active (concrete values, exact comparison), for every system
    class with a compatible integrator and all four transition classes."""
    import mici.integrators as IN
    import mici.transitions as T
    import mici.systems as S
    import mici.matrices as M
    from harness import syslib as sl
    rec.encoded(CL.ST.cache_in_state, CL.ST.cache_in_state_with_aux, IN.Integrator.step, T.MetropolisIntegrationTransition._sample_n_step,
                T.DynamicIntegrationTransition.sample)
    n = 0
    viol = {}
    for sname, cfg0 in CL.SYSTEMS.items():
        for conv in ("plain", "aux"):
            rng0 = np.random.default_rng(7)
            cfg = dict(cfg0)
            kind, dim = cfg.pop("kind"), cfg.pop("dim")
            sysm, info = sl.make_system(S, M, _Rand(rng0), kind, dim, convention=conv, **cfg)
            if kind in ("euclid", "gauss"):
                integs = [IN.LeapfrogIntegrator(sysm, 0.2), IN.BCSSTwoStageIntegrator(sysm, 0.2), IN.ImplicitLeapfrogIntegrator(sysm, 0.2),
                          IN.ImplicitMidpointIntegrator(sysm, 0.2)]
                q0, p0 = np.array([0.3, -0.4]), np.array([0.5, 0.2])
            elif kind in ("constr", "gauss_constr"):
                integs = [IN.ConstrainedLeapfrogIntegrator(sysm, 0.1, n_inner_step=k_) for k_ in (1, 2)]
                r = float(np.sqrt(info["constraint"].r2))
                q0 = r * np.array([np.cos(0.4), np.sin(0.4)])
                p0 = 0.7 * np.array([-np.sin(0.4), np.cos(0.4)])
                p0 = sysm.project_onto_cotangent_space(p0.copy(), CL.ChainState(pos=q0.copy(), mom=p0.copy(), dir=1))
            else:
                integs = [IN.ImplicitLeapfrogIntegrator(sysm, 0.05), IN.ImplicitMidpointIntegrator(sysm, 0.05)]
                q0 = np.array([0.3, -0.4])[:dim]
                p0 = np.array([0.5, 0.2])[:dim]
            for integ in integs:
                transitions = [lambda: T.MetropolisStaticIntegrationTransition(sysm, integ, n_step=3),
                               lambda: T.MetropolisRandomIntegrationTransition(sysm, integ, n_step_range=(1, 4)),
                               lambda: T.MultinomialDynamicIntegrationTransition(sysm, integ, max_tree_depth=3),
                               lambda: T.SliceDynamicIntegrationTransition(sysm, integ, max_tree_depth=3)]
                outs = []
                for defeated in (False, True):
                    res = []
                    try:
                        st = CL.ChainState(pos=q0.copy(), mom=p0.copy(), dir=1, _cache=NoCache() if defeated else None)
                        s1 = st
                        for _ in range(3):
                            s1 = integ.step(s1)
                        res.append(np.concatenate([s1.pos, s1.mom]))
                        for mk_tr in transitions:
                            tr = mk_tr()
                            rng = np.random.default_rng(3)
                            st = CL.ChainState(pos=q0.copy(), mom=p0.copy(), dir=1, _cache=NoCache() if defeated else None)
                            for _ in range(3):
                                st, stats = tr.sample(st, rng)
                                st.mom = sysm.sample_momentum(st, rng)
                            res.append(np.concatenate([st.pos, st.mom, [float(stats["accept_stat"]), float(stats["n_step"])]]))
                    except Exception as e:  # noqa: BLE001
                        res.append(f"{type(e).__name__}: {e}")
                    outs.append(res)
                n += 1
                rec.path()
                for i, (a, b) in enumerate(zip(outs[0], outs[1])):
                    same = (isinstance(a, str) and isinstance(b, str) and a.split(":")[0] == b.split(":")[0]) or \
                           (not isinstance(a, str) and not isinstance(b, str) and np.array_equal(a, b, equal_nan=True))
                    if not same:
                        what = "integrator steps" if i == 0 else ["Metropolis static", "Metropolis random", "multinomial", "slice"][i - 1] + " transition"
                        viol.setdefault(f"{sname}:{type(integ).__name__}:{what}",
                                        f"{sname} ({conv}) with {type(integ).__name__}: {what} differ with caching defeated: {a} vs {b}")
    for k, msg in viol.items():
        rec.candidate(key=f"defeated:{k}", label=msg, payload={"concrete": True})
    rec.note(f"{n} (system, convention, integrator) combinations x (3 steps + 4 transition classes x 3 iterations)")
    rec.obligation(f"caching defeated vs active: identical results in {n} system/integrator combinations", [], z3.BoolVal(False), syntactic=True)


class _Rand(ConcMk):
    def __init__(self, rng):
        super().__init__({})
        self.rng = rng

    def real(self, name):
        return float(self.rng.uniform(0.3, 1.7))

    pos = real
    nonzero = real


def cases(tier):
    th = tier == "thorough"
    out = []
    if th:
        # all histories of length <= 3 over the six operations that continue on one state, plus those over the operations without
        # copies that hand out exactly one read-only view (all live states are swept after every step, so the full product over
        # seven operations would take more than an hour)
        base = ["set_pos", "set_mom", "set_dir", "copy", "copy_ro", "switch"]
        hs = CL.histories(3, False, ops=base)
        hs += [h for h in CL.histories(3, False, ops=["set_pos", "set_mom", "set_dir", "switch", "view_ro"]) if h.count("view_ro") == 1]
    else:
        hs = CL.histories(2, False, ops=["set_pos", "set_mom", "copy", "copy_ro", "view_ro", "switch"])
    for sname in CL.SYSTEMS:
        for conv in (("plain", "aux") if th or sname in ("euclid", "diagonal", "constr") else ("plain",)):
            chunks = [hs[i:i + 14] for i in range(0, len(hs), 14)]
            for ci, ch in enumerate(chunks):
                out.append(Case(f"{sname}/{conv}/h{ci}", run_group, {"sname": sname, "hists": ch, "convention": conv, "two_systems": False},
                                timeout_s=1800))
    out.append(Case("defeated", case_defeated, {}, timeout_s=900))
    for sname in ("euclid", "diagonal", "gauss"):
        hs2 = CL.histories(2, False)
        step = 21 if sname == "euclid" else 4  # (position-dependent metrics: ~30 s per history, one worker per 4)
        for ci, i in enumerate(range(0, 21, step)):
            out.append(Case(f"{sname}/two_systems" + (f"/h{ci}" if step < 21 else ""), run_group,
                            {"sname": sname, "hists": hs2[i:min(i + step, 21)], "convention": "plain", "two_systems": True}, timeout_s=1800))
    return out


def replay(cand):
    p = cand.get("payload") or {}
    if p.get("concrete"):
        return {"reproduced": True, "detail": cand["label"] + " (observed on the real code with floats and a real pickle round trip)"}
    kw = p.get("kwargs", {})
    return replay_problem(prob, cand, rtol=1e-9)
