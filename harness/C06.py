"""C06 - one step of size eps approximates the exact flow over time eps to second order.

The step size is the variable of a truncated power series (eps^0..eps^3 kept) over z3 reals; the real ``step``
runs in series arithmetic - implicit integrators with the real fixed-point solvers, which converge order by
order under the germ norm.  Reference: Picard iteration of Hamilton's equations built from the system's own
dh_dmom / dh_dpos (tied to h by C05).  Composition consistency with symbolic free coefficients.
"""
from __future__ import annotations

from symx.eqcheck import run_problem, replay_problem
from symx.harness import Case
from harness import integlib as L

META = {
    "level": "model_checking",
    "technique": "symbolic execution of the real integrators on truncated power series in the step size over z3 reals; "
                 "z3 refutes 'coefficient of eps^k of the step != coefficient of the exact flow' for k = 0, 1, 2",
    "explanation": "bounded SMT check: start state and polynomial model coefficients symbolic; eps a formal variable",
    "bounds": {"quick": {"dim": 1, "series_order": 3}, "thorough": {"dim": "1-2", "series_order": 3}},
    "outside": "constrained integrator beyond the circle cases (Newton / line-search projection with the shifted series division; the "
               "integrator's internal reverse check is cut there; the quasi-Newton solver needs a Puiseux series), implicit integrators on dense / SoftAbs "
               "position-dependent metrics (the log-determinant energy term is not decided), dim > 2, non-polynomial targets, "
               "global error accumulation (a textbook consequence of local order + stability)",
    "stubs": ["LAPACK stubs", "LOG/SIN/COS/SQRT uninterpreted with Taylor rules in the series domain"],
    "assumptions": ["metric positive at the expansion point", "denominators recorded during execution are non-zero"],
}
PROBS = {"order2": L.prob_order2, "coefficients": L.prob_coefficients, "structure": L.prob_structure, "constrained": L.prob_order2_constrained}


def run_group(rec, probs):
    rec.encoded(L.I.Integrator.step, L.I.LeapfrogIntegrator._step, L.I.SymmetricCompositionIntegrator, L.I.BCSSTwoStageIntegrator,
                L.I.BCSSThreeStageIntegrator, L.I.BCSSFourStageIntegrator, L.I.ImplicitLeapfrogIntegrator, L.I.ImplicitMidpointIntegrator,
                L.SO.solve_fixed_point_direct, L.SO.solve_fixed_point_steffensen)
    for pname, kw in probs:
        key = "/".join(f"{k}={v}" for k, v in sorted(kw.items()))
        run_problem(rec, PROBS[pname], kw, key_prefix=f"{pname}/{key}:", timeout_ms=60000, max_paths=100)


# implicit integrators on position-dependent metrics: the eps-series coefficients of the fixed-point iterates are rational
# functions whose normal forms did not finish within 1500 s per case (10 cases tried); outside the claim until they do
# ... with a symbolic expansion point.  At the expansion point q = 0 (no loss of generality for polynomial models with free
# coefficients, see integlib.prob_order2) they take 20 - 200 s and are registered as order2_origin cases below.
RIEMANNIAN_IMPLICIT = []
RIEMANNIAN_ORIGIN_QUICK = [("implicit_leapfrog", "scalar", 1), ("implicit_midpoint", "diagonal", 1)]
RIEMANNIAN_ORIGIN_THOROUGH = [("implicit_leapfrog", "scalar", 1), ("implicit_leapfrog", "diagonal", 1), ("implicit_leapfrog", "scalar", 2),
                              ("implicit_leapfrog", "cholesky", 1), ("implicit_midpoint", "scalar", 1), ("implicit_midpoint", "diagonal", 1),
                              ("implicit_midpoint", "scalar", 2), ("implicit_midpoint", "cholesky", 1)]


def cases(tier):
    out = []
    th = tier == "thorough"

    def G(name, pname, kw, timeout_s=1500):
        out.append(Case(name, run_group, {"probs": [(pname, kw)]}, timeout_s=timeout_s))
    # BCSS3/4 are the symbolic-coefficient compositions symcomp2/symcomp3 at particular binary64 constants whose sums
    # are 1 only up to rounding: the order claim is carried by symcomp2/3 (all coefficient values) and the numeric
    # schemes are tied to it by the structure obligation (weights sum to 1 within 1e-12, palindromic)
    explicit = ["leapfrog", "symcomp1", "symcomp1h2", "symcomp2", "symcomp3", "bcss2"]
    for ik in ("bcss2", "bcss3", "bcss4"):
        G(f"structure/{ik}", "structure", {"ikind": ik}, timeout_s=300)
    for ik in explicit:
        for kind, dim, mkind in [("euclid", 1, "diag"), ("gauss", 1, "diag")] + ([("euclid", 2, "diag"), ("euclid", 2, "dense"), ("gauss", 2, "diag")] if th else []):
            G(f"order2/{ik}/{kind}/{dim}/{mkind}", "order2", {"ikind": ik, "kind": kind, "dim": dim, "mkind": mkind})
    # (the Steffensen solver needs np.finfo of the iterate's dtype and cannot run on symbolic series: not covered)
    for ik in ("implicit_leapfrog", "implicit_midpoint"):
        for kind, dim, mkind in [("euclid", 1, "diag"), ("gauss", 1, "diag")] + RIEMANNIAN_IMPLICIT * th:
            if ik.endswith("steffensen") and kind != "euclid":
                continue
            G(f"order2/{ik}/{kind}/{dim}", "order2", {"ikind": ik, "kind": kind, "dim": dim, "mkind": mkind})
    for ik, kind, dim in (RIEMANNIAN_ORIGIN_THOROUGH if th else RIEMANNIAN_ORIGIN_QUICK):
        G(f"order2_origin/{ik}/{kind}/{dim}", "order2", {"ikind": ik, "kind": kind, "dim": dim, "mkind": "diag", "origin": True})
    # constrained integrator on a circle of symbolic radius (curved manifold) with the real Newton projection solvers: the Newton
    # update divides the O(eps^2) constraint residual by the O(eps) Gram scalar J (|t| M^-1) J_prev^T - series division with a
    # shift; the coefficients lost to the shift are fresh unknowns (symx.series), the integrator's internal reverse check is cut.
    # (The quasi-Newton solver takes a Cholesky factor of that O(eps) scalar - a Puiseux series in sqrt(eps): outside.)
    G("constrained/newton/inner1", "constrained", {"solver": "newton", "n_inner": 1}, timeout_s=1500)
    # (n_inner_step = 2, the line-search solver, and a scaled metric with the Lebesgue density - where the Gram log-determinant
    # force takes part - did not finish in 15-24 minutes per case: not registered, outside the claim; C05 covers that force)
    for k in (1, 2, 3, 4):
        for h2 in (False, True):
            G(f"coefficients/{k}/{h2}", "coefficients", {"k": k, "h2first": h2}, timeout_s=300)
    return out


def replay(cand):
    name = cand["key"].split("/", 1)[0]
    return replay_problem(PROBS[name], cand, rtol=1e-6)
