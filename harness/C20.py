"""C20 - log-space arithmetic matches real arithmetic without overflow or precision loss.

(i) Precision: first-order rounding-error analysis of the real helpers with the libm names replaced.  The argument
is a symbolic real v represented through t = e^v; every libm call and arithmetic operation returns x(1+d), |d| <= u.
A path yields the exact value log(X) and a bound on the absolute error in units of u; the obligation is
bound <= K * |log X|.  |log Z| enters through one-sided elementary lower bounds, so `unsat' is a proof and `sat' only
a candidate, which is sharpened by an escalating threshold and replayed against 60-digit decimal arithmetic.
(ii) Special values / order / algebra: the real functions and LogRepFloat operators on a symbolic positive-weight
domain (exact), plus a concrete sweep of IEEE specials (zero weights, equal values, +-inf).
"""
from __future__ import annotations

import math
from decimal import Decimal, getcontext
from fractions import Fraction

import z3

from symx.core import Ctx, explore, SB
from symx.harness import Case
import mici.utils as U

META = {
    "level": "model_checking",
    "technique": "symbolic execution of mici.utils with error-carrying values (exact term + first-order rounding bound over z3 "
                 "reals); z3 refutes 'bound > K u |exact|' per path; candidates replayed against 60-digit decimal",
    "explanation": "SMT check over the whole real line of arguments (t = e^v as working variable), first order in u",
    "bounds": {"quick": {"K_ulps": 16, "argument": "all reals (t>0)", "order": "first order in u"},
               "thorough": {"K_ulps": 16, "argument": "all reals", "accumulations": "<= 4 terms"}},
    "outside": "second-order rounding terms; accuracy of libm itself (assumed <= 1 ulp); subnormal results; for the two-argument helpers "
               "the bound is the conditioning-aware one, error <= K u (|v1| + |v2| + |result|), because the result can be arbitrarily close to "
               "zero while the operands are not",
    "stubs": ["math.exp/log/log1p/expm1 as imported into mici.utils: error-model versions"],
    "assumptions": ["libm functions and arithmetic return x(1+d), |d| <= u = 2^-53", "elementary bounds: t/(1+t) <= log(1+t) <= t, "
                    "t <= -log(1-t) <= t/(1-t), |log Z| >= 0.69 for Z >= 2 or Z <= 1/2"],
}
K = 16
getcontext().prec = 60


class Env:
    def __init__(self):
        self.LV = {}
        self.ax_low = []

    def Lvar(self, Z):
        Z = z3.simplify(Z)
        k = Z.get_id()
        if k not in self.LV:
            L = z3.Real(f"L{len(self.LV)}")
            self.LV[k] = (L, Z)
            self.ax_low.append(z3.And(L >= 0, Z > 0,
                                      z3.Implies(Z >= 1, L >= (Z - 1) / Z), z3.Implies(Z <= 1, L >= 1 - Z),
                                      z3.Implies(Z >= 2, L >= z3.RealVal("0.69")),
                                      z3.Implies(Z <= z3.RealVal("1/2"), L >= z3.RealVal("0.69")),
                                      # upper bounds (also true facts): log Z <= Z - 1, -log Z <= (1 - Z)/Z
                                      z3.Implies(Z >= 1, L <= Z - 1), z3.Implies(Z <= 1, L <= (1 - Z) / Z)))
        return self.LV[k][0]


ENV = Env()


def zabs(e):
    return z3.If(e >= 0, e, -e)


def thr(c):
    if c == 0:
        return z3.RealVal(1)
    if c == U.LOG_2:
        return z3.RealVal(2)
    if c == -U.LOG_2:
        return z3.RealVal("1/2")
    return z3.RealVal(str(Fraction(math.exp(c))))


class LogV:
    """value log(X) carried with abs error <= err * u"""

    def __init__(s, X, err):
        s.X, s.err = X, err

    def __neg__(s):
        return LogV(1 / s.X, s.err)

    def _cmp(s, o, op):
        if isinstance(o, LogV):
            rhs = o.X
        elif isinstance(o, float) and math.isinf(o):
            return (o > 0) if op in ("lt", "le") else (o < 0) if op in ("gt", "ge") else False
        else:
            rhs = thr(float(o))
        return SB({"lt": s.X < rhs, "le": s.X <= rhs, "gt": s.X > rhs, "ge": s.X >= rhs, "eq": s.X == rhs}[op])

    def __lt__(s, o):
        return s._cmp(o, "lt")

    def __le__(s, o):
        return s._cmp(o, "le")

    def __gt__(s, o):
        return s._cmp(o, "gt")

    def __ge__(s, o):
        return s._cmp(o, "ge")

    def __eq__(s, o):
        return s._cmp(o, "eq")

    __hash__ = None

    def __add__(s, o):
        X = s.X * o.X
        L = ENV.Lvar(X)
        La, Lb = ENV.Lvar(s.X), ENV.Lvar(o.X)
        ENV.ax_low.append(z3.And(L <= La + Lb, La <= L + Lb, Lb <= L + La))  # triangle inequalities for |log(ab)|, |log a|, |log b|
        return LogV(X, s.err + o.err + L)

    def __sub__(s, o):
        X = s.X / o.X
        L = ENV.Lvar(X)
        La, Lb = ENV.Lvar(s.X), ENV.Lvar(o.X)
        ENV.ax_low.append(z3.And(L <= La + Lb, La <= L + Lb, Lb <= L + La))  # triangle inequalities for |log(a/b)|, |log a|, |log b|
        return LogV(X, s.err + o.err + L)


class LinV:
    def __init__(s, X, err):
        s.X, s.err = X, err

    def __neg__(s):
        return LinV(-s.X, s.err)


def s_exp(a):
    return LinV(a.X, a.X * a.err + a.X)


def s_expm1(a):
    return LinV(a.X - 1, a.X * a.err + zabs(a.X - 1))


def s_log1p(y):
    Z = 1 + y.X
    return LogV(Z, y.err / zabs(Z) + ENV.Lvar(Z))


def s_log(y):
    return LogV(y.X, y.err / zabs(y.X) + ENV.Lvar(y.X))


def _install():
    U.exp, U.expm1, U.log1p, U.log = s_exp, s_expm1, s_log1p, s_log


EXACT = {
    "log1m_exp": lambda d: (1 - d.exp()).ln(),
    "log1p_exp": lambda d: (1 + d.exp()).ln(),
}


def case_precision(rec, fname, region):
    """region: 'neg' (t<1, v<0) for log1m_exp; 'all' for log1p_exp."""
    _install()
    fn = getattr(U, fname)
    rec.encoded(fn)
    T = z3.Real("t")
    base = [T > 0] + ([T < 1] if region == "neg" else [])
    rec.assume("first-order error model, |delta| <= u per operation")
    rec.reachable(f"{fname}", base)
    for res, ctx in explore(lambda c: fn(LogV(T, z3.RealVal(0))), base):
        rec.path(ctx)
        if not isinstance(res, LogV):
            # a non-finite return (nan) inside the domain where the exact result is defined
            rec.candidate(key=f"{fname}:returns-{res}", label=f"{fname} returns {res} on a path inside its domain: {ctx.pc}",
                          payload={"fname": fname, "t": 0.5, "K": K})
            continue
        exactL = ENV.Lvar(res.X)
        assumptions = base + ctx.pc + ENV.ax_low
        pcs = [str(z3.simplify(c)) for c in ctx.pc]
        spec = (1 - T) if fname == "log1m_exp" else (1 + T)
        rec.obligation(f"{fname} path {pcs}: exact value of the evaluated formula is log({'1-e^v' if fname == 'log1m_exp' else '1+e^v'})",
                       base + ctx.pc, res.X != spec, key=f"{fname}:value",
                       replay=lambda m: {"fname": fname, "t": float(m.eval(T, model_completion=True).numerator_as_long())
                                         / float(m.eval(T, model_completion=True).denominator_as_long()), "K": K})

        def payload(m, res=res, assumptions=assumptions, exactL=exactL):
            # escalate the threshold to drive the witness to where the amplification is genuinely unbounded
            k, last = K, m
            while k < 1e12:
                k *= 10
                s2 = z3.Solver()
                s2.set("timeout", 20000)
                for c in assumptions:
                    s2.add(c)
                s2.add(res.err > k * exactL)
                if str(s2.check()) != "sat":
                    break
                last = s2.model()
            tv = last.eval(T, model_completion=True)
            return {"fname": fname, "t": tv.numerator_as_long() / tv.denominator_as_long(), "K": K, "escalated_to": k / 10}
        rec.obligation(f"{fname} path {pcs}: first-order error bound <= {K} u |exact value|", assumptions, res.err > K * exactL,
                       key=f"{fname}:precision", replay=payload, timeout_ms=60000)
        rec.sample({"function": fname, "path_condition": pcs, "exact_value": f"log({z3.simplify(res.X)})"})


def case_precision2(rec, fname):
    """log_sum_exp / log_diff_exp with two symbolic arguments v1 = log t1, v2 = log t2 (exactly representable inputs):
    absolute error <= K u (|v1| + |v2| + |exact|) - the conditioning-aware form of `near machine precision' (the result
    can be arbitrarily close to zero while the operands are not)."""
    _install()
    fn = getattr(U, fname)
    rec.encoded(fn, U.log1p_exp, U.log1m_exp)
    T1, T2 = z3.Real("t1"), z3.Real("t2")
    base = [T1 > 0, T2 > 0] + ([T1 > T2] if fname == "log_diff_exp" else [])
    rec.reachable(fname, base)
    for res, ctx in explore(lambda c: fn(LogV(T1, z3.RealVal(0)), LogV(T2, z3.RealVal(0))), base):
        rec.path(ctx)
        pcs = [str(z3.simplify(c)) for c in ctx.pc]
        if not isinstance(res, LogV):
            rec.candidate(key=f"{fname}:returns-{res}", label=f"{fname} returns {res} inside its domain on path {pcs}",
                          payload={"fname2": fname, "t1": 2.0, "t2": 1.0})
            continue
        scale = ENV.Lvar(res.X) + ENV.Lvar(T1) + ENV.Lvar(T2)
        assumptions = base + ctx.pc + ENV.ax_low
        spec = (T1 + T2) if fname == "log_sum_exp" else (T1 - T2)
        rec.obligation(f"{fname} path {pcs}: exact value of the evaluated formula is log(e^v1 {'+' if fname == 'log_sum_exp' else '-'} e^v2)",
                       base + ctx.pc, res.X != spec, key=f"{fname}:value",
                       replay=lambda m: {"fname2": fname, "t1": float(m.eval(T1, model_completion=True).numerator_as_long()) / float(m.eval(T1, model_completion=True).denominator_as_long()),
                                         "t2": float(m.eval(T2, model_completion=True).numerator_as_long()) / float(m.eval(T2, model_completion=True).denominator_as_long())})

        def payload(m):
            a, b = m.eval(T1, model_completion=True), m.eval(T2, model_completion=True)
            return {"fname2": fname, "t1": a.numerator_as_long() / a.denominator_as_long(), "t2": b.numerator_as_long() / b.denominator_as_long()}
        rec.obligation(f"{fname} path {pcs}: first-order abs error <= {K} u (|v1|+|v2|+|exact|)", assumptions, res.err > K * scale,
                       key=f"{fname}:precision", replay=payload, timeout_ms=60000)


def _w(name):
    from symx import weights as W
    return W.wvar(name)


def case_algebra(rec):
    """LogRepFloat operators / log_sum_exp / log_diff_exp on the exact positive-weight domain: values, order, in-place
    accumulation.  (The helpers themselves are exact here; their rounding is case_precision.)"""
    from symx import weights as W
    from symx.canon import Poly, RF
    import builtins

    rec.encoded(U.LogRepFloat, U.log_sum_exp, U.log_diff_exp)
    lse, ex = U.log_sum_exp, U.exp

    def _lse(a, b):
        if isinstance(a, W.Log) or isinstance(b, W.Log):
            return W.Log(a.f + b.f)
        return lse(a, b)
    U.log_sum_exp = _lse
    U.exp = lambda x: x.exp() if isinstance(x, W.Log) else ex(x)
    lde = U.log_diff_exp

    def _lde(a, b):
        if isinstance(a, W.Log) and isinstance(b, W.Log):
            if a == b:
                return -math.inf
            if a < b:
                return math.nan
            return W.Log(a.f - b.f)
        return lde(a, b)
    U.log_diff_exp = _lde
    U.log = lambda x: x.log() if isinstance(x, W.Lin) else (W.Log(RF(Poly.const(x))) if isinstance(x, int) and x > 0 else math.log(x))
    n_ok = [0]

    def eq(label, got, want):
        if isinstance(got, U.LogRepFloat) and not isinstance(got.log_val, W.Log):
            rec.candidate(key=f"logrep:{label}", label=f"{label}: result has log value {got.log_val!r} where exact arithmetic is "
                          "a positive number", payload={"algebra": label})
            return
        g = W.tofrac(got) if not isinstance(got, U.LogRepFloat) else got.log_val.f
        if not W.cmp_poly(g, want).is_zero():
            rec.candidate(key=f"logrep:{label}", label=f"{label}: symbolic result differs from exact arithmetic",
                          payload={"algebra": label})
        n_ok[0] += 1

    def fn(ctx):
        a, b, c = (U.LogRepFloat(log_val=W.Log(_w(n))) for n in "abc")
        A, B, C = _w("a"), _w("b"), _w("c")
        eq("a+b", a + b, A + B)
        eq("a*b", a * b, A * B)
        eq("a/b", a / b, A / B)
        eq("a+2", a + 2, A + RF(Poly.const(2)))
        eq("3*a", 3 * a, A * RF(Poly.const(3)))
        eq("1-a", 1 - a, RF(Poly.const(1)) - A)
        # mixed operations with plain numbers, every operator and its reflected form
        eq("2+a", 2 + a, A + RF(Poly.const(2)))
        eq("a-2", a - 2, A - RF(Poly.const(2)))
        eq("a*3", a * 3, A * RF(Poly.const(3)))
        eq("a/2", a / 2, A / RF(Poly.const(2)))
        eq("2/a", 2 / a, RF(Poly.const(2)) / A)
        acc2 = U.LogRepFloat(log_val=W.Log(_w("a")))
        acc2 += 0
        acc2 += 2
        acc2 += b
        eq("in-place a+=0; a+=2; a+=b", acc2, A + RF(Poly.const(2)) + B)
        if (a != b) != (not (a == b)):
            rec.candidate(key="logrep:order", label="!= inconsistent with ==", payload={"algebra": "order"})
        s = a - b
        eq("a-b", s, A - B)
        acc = U.LogRepFloat(log_val=W.Log(_w("a")))
        acc += b
        acc += c
        eq("in-place a+=b; a+=c", acc, A + B + C)
        # order agrees with the order of the plain values
        lt = a < b
        want = W.poly_pos(W.cmp_poly(B, A))
        if bool(lt) != bool(want):
            rec.candidate(key="logrep:order", label="a < b disagrees with the order of the values", payload={"algebra": "order"})
        if (a <= b) != (not (a > b)) or (a >= b) != (not (a < b)):
            rec.candidate(key="logrep:order", label="<=, >= inconsistent with <, >", payload={"algebra": "order"})
        return True
    for res, ctx in W.wexplore(fn):
        rec.path()
        rec.decisions += len(ctx.trace)
    rec.note(f"{n_ok[0]} exact-domain identities evaluated over {rec.paths} orderings of (a,b,c)")
    # the solver-side statement: the symbolic identities were decided syntactically as equal rational functions;
    # record one trivial z3 query per operator so the evidence shows them as obligations
    for lab in ("a+b", "a*b", "a/b", "a-b", "in-place accumulation", "order"):
        rec.obligation(f"LogRepFloat {lab} equals exact arithmetic (normal forms identical)", [], z3.BoolVal(False), syntactic=True)


def case_specials(rec):
    """IEEE specials on the real functions (concrete): zero weights, equal values, infinities never give NaN where the real
    result is defined, and no OverflowError escapes."""
    rec.encoded(U.log_sum_exp, U.log_diff_exp, U.log1p_exp, U.log1m_exp, U.LogRepFloat)
    inf = math.inf
    vals = [-inf, -1e308, -745.2, -710.0, -37.0, -1.0, -1e-300, 0.0, 1e-300, 1.0, 37.0, 709.0, 710.0, 1e308]
    n = 0
    bad = []
    for a in vals:
        for b in vals:
            n += 1
            try:
                r = U.log_sum_exp(a, b)
                ex = max(a, b) if (a == -inf or b == -inf) else None
                if math.isnan(r) or (ex is not None and r != ex):
                    bad.append(("log_sum_exp", a, b, r))
                if a >= b:
                    d = U.log_diff_exp(a, b)
                    if a == b and d != -inf:
                        bad.append(("log_diff_exp equal", a, b, d))
                    if a > b and math.isnan(d):
                        bad.append(("log_diff_exp", a, b, d))
                z = U.LogRepFloat(0.0)
                x = U.LogRepFloat(log_val=a)
                if (z + x).log_val != x.log_val or math.isnan(float((z * x).log_val)) and a != inf:
                    bad.append(("zero weight", a, b, None))
                # LogRepFloat arithmetic on the same grid: the result of every operation that is defined in the reals is not NaN,
                # agrees with the log-domain helper, and differences of equal values are an exact zero that can be divided
                if a < inf and b < inf:
                    y = U.LogRepFloat(log_val=b)
                    lv = lambda r_: r_.log_val if isinstance(r_, U.LogRepFloat) else (math.log(r_) if r_ > 0 else (-inf if r_ == 0 else math.nan))  # noqa: E731
                    if a >= b:
                        d = x - y
                        dl = lv(d)
                        if isinstance(dl, float) and math.isnan(dl) or (isinstance(d, float) and math.isnan(d)):
                            bad.append(("LogRepFloat difference is NaN", a, b, repr(d)))
                        elif a == b and dl != -inf:
                            bad.append(("LogRepFloat x - x is not zero", a, b, repr(d)))
                        elif a > b and abs(dl - U.log_diff_exp(a, b)) > 1e-9 * max(1.0, abs(dl)):
                            bad.append(("LogRepFloat difference", a, b, repr(d)))
                        if a == b and a > -inf:
                            q_ = d / x
                            if lv(q_) != -inf:
                                bad.append(("LogRepFloat (x - x) / x is not zero", a, b, repr(q_)))
                    sl = lv(x + y)
                    if math.isnan(sl) or sl != U.log_sum_exp(a, b):
                        bad.append(("LogRepFloat sum", a, b, sl))
                    if a > -inf and b > -inf:
                        if lv(x * y) != a + b or lv(x / y) != a - b:
                            bad.append(("LogRepFloat product/quotient", a, b, None))
                    if (x < y) != (a < b) or (x == y) != (a == b):
                        bad.append(("LogRepFloat comparison", a, b, None))
            except (OverflowError, ValueError, ZeroDivisionError) as e:
                bad.append((type(e).__name__, a, b, str(e)))
    # mixed operations of a LogRepFloat with plain numbers (every operator, reflected forms, in-place accumulation, comparisons,
    # construction from a plain value): agree with float arithmetic on the plain value wherever that value is representable,
    # and raise nothing where it is not (the plain value of a log value above 709.78 is documented to be inf)
    def close(g, w_):
        if isinstance(g, U.LogRepFloat):
            g = g.val
        if math.isnan(w_):
            return True  # (inf - inf etc.: undefined in the reals)
        if math.isinf(w_) or math.isinf(g):
            return g == w_
        return abs(g - w_) <= 1e-12 * max(abs(w_), 1e-300)
    for a in vals:
        if a == inf:
            continue
        for c in (0.0, 1e-300, 0.5, 1.0, 2.5, 1e300, 3):
            n += 1
            try:
                x = U.LogRepFloat(log_val=a)
                try:
                    v = math.exp(a)
                except OverflowError:
                    v = inf
                chk = [("x+c", x + c, v + c), ("c+x", c + x, c + v), ("x-c", x - c, v - c), ("c-x", c - x, c - v), ("x*c", x * c, v * c if not (v == inf and c == 0) else math.nan),
                       ("c*x", c * x, c * v if not (v == inf and c == 0) else math.nan)]
                if c != 0:
                    chk.append(("x/c", x / c, v / c))
                if v != 0:
                    chk.append(("c/x", c / x, c / v))
                for nm, g, w_ in chk:
                    if not close(g, w_):
                        bad.append((f"LogRepFloat mixed {nm}", a, c, repr(g)))
                if ((x < c), (x <= c), (x > c), (x >= c), (x == c), (x != c)) != ((v < c), (v <= c), (v > c), (v >= c), (v == c), (v != c)):
                    bad.append(("LogRepFloat mixed comparison", a, c, None))
                y = U.LogRepFloat(log_val=a)
                y += c
                if not isinstance(y, U.LogRepFloat) or (v + c < 1e308 and v + c > 0 and abs(y.log_val - math.log(v + c)) > 1e-12 * max(1.0, abs(math.log(v + c)))) \
                        or (c == 0 and y.log_val != a):
                    bad.append(("LogRepFloat mixed in-place x += c", a, c, repr(y)))
                if c > 0 and (U.LogRepFloat(c).log_val != math.log(c) or not close(U.LogRepFloat(val=c).val, float(c))):
                    bad.append(("LogRepFloat(val)", c, None, None))
            except (OverflowError, ValueError, ZeroDivisionError) as e:
                bad.append((type(e).__name__ + " in mixed operation", a, c, str(e)))
    if U.LogRepFloat(0.0).log_val != -inf or U.LogRepFloat(val=0.0).val != 0.0:
        bad.append(("LogRepFloat(0)", 0.0, None, None))
    for kw in ({"val": -1.0}, {}, {"val": 1.0, "log_val": 0.0}):
        try:
            U.LogRepFloat(**kw)
            bad.append(("LogRepFloat constructor accepts invalid arguments", str(kw), None, None))
        except ValueError:
            pass
    for v in vals:
        n += 1
        try:
            r = U.log1p_exp(v)
            if math.isnan(r) or (v < 700 and math.isinf(r) and v != -inf and r > 0):
                bad.append(("log1p_exp", v, None, r))
            if v < 0:
                r2 = U.log1m_exp(v)
                if math.isnan(r2):
                    bad.append(("log1m_exp", v, None, r2))
        except (OverflowError, ValueError) as e:
            bad.append((type(e).__name__, v, None, str(e)))
    rec.note(f"{n} special-value combinations evaluated on the real functions")
    for b_ in bad[:3]:
        rec.candidate(key=f"specials:{b_[0]}", label=f"special values: {b_}", payload={"special": [str(x) for x in b_]})
    rec.obligation("special-value sweep: no NaN / overflow where the real result is defined", [], z3.BoolVal(bool(bad)) if not bad else z3.BoolVal(False),
                   syntactic=True)


def cases(tier):
    return [Case("precision/log1m_exp", case_precision, {"fname": "log1m_exp", "region": "neg"}, timeout_s=600),
            Case("precision/log1p_exp", case_precision, {"fname": "log1p_exp", "region": "all"}, timeout_s=600),
            Case("precision/log_sum_exp", case_precision2, {"fname": "log_sum_exp"}, timeout_s=600),
            Case("precision/log_diff_exp", case_precision2, {"fname": "log_diff_exp"}, timeout_s=600),
            Case("algebra", case_algebra, {}, timeout_s=600),
            Case("specials", case_specials, {}, timeout_s=300)]


def replay(cand):
    p = cand.get("payload") or {}
    if "fname" in p:
        import importlib
        UU = importlib.reload(U)
        f = getattr(UU, p["fname"])
        tval = float(p["t"])
        v0 = math.log(tval) if tval > 0 else -1.0
        worst, at = 0.0, None
        for i in range(2001):
            v = v0 * (1.0 + i / 2000.0) if v0 != 0 else -1e-12 * (i + 1)
            got = f(v)
            if math.isnan(got):
                return {"reproduced": True, "detail": f"{p['fname']}({v!r}) is NaN"}
            exact = EXACT[p["fname"]](Decimal(v))
            rel = abs((Decimal(got) - exact) / exact) if exact != 0 else Decimal(0)
            if rel > worst:
                worst, at = float(rel), v
        u = 2.0 ** -53
        return {"reproduced": bool(worst > p.get("K", K) * u),
                "detail": f"{p['fname']}: max observed relative error {worst / u:.3g} u at v={at!r} (scan of 2001 points from v={v0!r}; "
                          f"bound claimed {p.get('K', K)} u)"}
    if "fname2" in p:
        import importlib
        UU = importlib.reload(U)
        f = getattr(UU, p["fname2"])
        t1, t2 = float(p["t1"]), float(p["t2"])
        worst, at = 0.0, None
        u = 2.0 ** -53
        for i in range(400):
            v1 = math.log(t1) * (1 + i / 4000.0) if t1 != 1 else 1e-9 * (i + 1)
            for j in range(5):
                v2 = math.log(t2) * (1 + j / 4000.0) if t2 != 1 else -1e-9 * (j + 1)
                if p["fname2"] == "log_diff_exp" and not v1 > v2:
                    continue
                got = f(v1, v2)
                d1, d2 = Decimal(v1).exp(), Decimal(v2).exp()
                exact = (d1 + d2).ln() if p["fname2"] == "log_sum_exp" else (d1 - d2).ln()
                if math.isnan(got):
                    return {"reproduced": True, "detail": f"{p['fname2']}({v1!r},{v2!r}) is NaN"}
                err = abs(Decimal(got) - exact) / (abs(Decimal(v1)) + abs(Decimal(v2)) + abs(exact))
                if err > worst:
                    worst, at = float(err), (v1, v2)
        return {"reproduced": bool(worst > K * u), "detail": f"{p['fname2']}: max observed error {worst / u:.3g} u (relative to |v1|+|v2|+|exact|) at {at}"}
    if "special" in p:
        return {"reproduced": True, "detail": f"special-value sweep on the real functions: {p['special']}"}
    if "algebra" in p:
        import importlib
        UU = importlib.reload(U)
        rng = __import__("random").Random(5)
        for _ in range(2000):
            a, b, c = (rng.uniform(1e-3, 50.0) for _ in range(3))
            if a < b:
                a, b = b, a
            A, B, C = (UU.LogRepFloat(x) for x in (a, b, c))
            acc = UU.LogRepFloat(a)
            acc += B
            acc += C
            checks = {"a+b": ((A + B).val, a + b), "a*b": ((A * B).val, a * b), "a/b": ((A / B).val, a / b), "a-b": (float((A - B).val) if a > b else 0.0, a - b if a > b else 0.0),
                      "a+2": (A + 2, a + 2), "3*a": (3 * A, 3 * a), "1-a": (1 - A, 1 - a), "in-place a+=b; a+=c": (acc.val, a + b + c),
                      "order": (float(A < B), float(a < b))}
            for lab, (got, want) in checks.items():
                if not (abs(float(got) - want) <= 1e-9 * (1 + abs(want))):
                    return {"reproduced": True, "detail": f"LogRepFloat {lab}: got {float(got)!r}, exact {want!r} for a={a}, b={b}, c={c}"}
        return {"reproduced": False, "detail": "2000 random operand triples agree with plain arithmetic"}
    return {"reproduced": False, "detail": "no replay available"}
