"""C13 - sampler outputs record exactly the post-iteration chain states (partial: see not-applicable parts).

The real MarkovChainMonteCarloMethod.sample_chains (+ _sample_chain, _sample_chains_sequential/_parallel/_worker, _init_stats,
_init_traces, real stagers, real memmaps in a temporary directory) runs with token transitions under the in-process
multiprocessing model of harness.samplerlib.  The explorer enumerates the configuration space (small iteration counts);
per configuration: array lengths, every row of every trace/statistics array equals the token of the state after that
recorded iteration, no fill value survives, final states are the last states, in-memory and memory-mapped runs agree.
Inductive step with symbolic row index: _sample_chain driven by an iterator yielding one SYMBOLIC sample index i with a
symbolic offset o writes exactly row i + o (z3 integers).
"""
from __future__ import annotations

import itertools
import math

import numpy as np
import z3

from symx.harness import Case
from harness import samplerlib as SL
import mici.samplers as SA

META = {
    "level": "model_checking",
    "technique": "bounded exhaustive configurations of the real sampler under a modelled multiprocessing environment (token states); "
                 "z3-integer inductive step for the row index arithmetic of _sample_chain",
    "explanation": "configuration space enumerated within small bounds; row/offset arithmetic symbolic",
    "bounds": {"quick": {"n_warm_up_iter": "0-5", "n_main_iter": "0-3", "chains": 2, "n_process": [1, 2, None]},
               "thorough": {"n_warm_up_iter": "0-12", "n_main_iter": "0-4", "chains": "2-3"}},
    "outside": "NOT APPLICABLE parts: real worker processes and OS scheduling, flushing to disk as an OS effect, user-directory vs "
               "temporary-directory file lifetime, progress-bar rendering",
    "stubs": ["multiprocessing Pool / Manager queues: in-process model with real pickle round trips", "numpy Generator: token stream"],
    "assumptions": ["the multiprocessing model (FIFO queues, pickled arguments/results, each queued chain taken by exactly one worker)"],
}


def _check(res, cfg):
    n_chain, n_warm, n_main, twu = cfg["n_chain"], cfg["n_warm"], cfg["n_main"], cfg["trace_warm_up"]
    rows, per = SL.expected_rows(res["log"], n_chain, n_warm, n_main, twu)
    n_rec = (n_warm + n_main) if twu else n_main
    probs = []
    traced = cfg.get("traced", True)
    if traced and res["traces"] is None:
        return ["traces missing"]
    if not traced and res["traces"]:
        return [f"traces returned although no trace function was given: {list(res['traces'])}"]
    for c in range(n_chain):
        if traced:
            got = res["traces"]["pos"][c]
            if len(got) != n_rec:
                probs.append(f"chain {c}: trace length {len(got)} != recorded iterations {n_rec}")
                continue
            if any(isinstance(x, float) and math.isnan(x) for x in got):
                probs.append(f"chain {c}: fill value survives in trace {got}")
            if got != rows[c]:
                probs.append(f"chain {c}: trace rows {got} != post-iteration states {rows[c]}")
            if res["traces"]["twice"][c] != [2 * x for x in rows[c]]:
                probs.append(f"chain {c}: second traced quantity wrong")
        if len(res["stats"]["tok"][c]) != n_rec:
            probs.append(f"chain {c}: statistics length {len(res['stats']['tok'][c])} != recorded iterations {n_rec}")
            continue
        if res["stats"]["tok"][c] != rows[c]:
            probs.append(f"chain {c}: statistics rows {res['stats']['tok'][c]} != {rows[c]}")
        if res["stats"]["flag"][c] != [True] * n_rec or any(x < 0 for x in res["stats"]["cnt"][c]):
            probs.append(f"chain {c}: typed statistics (bool/int) not recorded: {res['stats']['flag'][c]} {res['stats']['cnt'][c]}")
        if cfg.get("two_transitions"):
            su = res["stats_u"]
            if su["tok"][c] != [-x for x in rows[c]] or su["cnt"][c] != [7] * n_rec or su["flag"][c] != [True] * n_rec:
                probs.append(f"chain {c}: statistics of the second transition {su['tok'][c]} {su['cnt'][c]} != its own values {[-x for x in rows[c]]}")
        last = per[c][-1] if per[c] else -1.0 - c
        if res["final"][c] != last:
            probs.append(f"chain {c}: final state {res['final'][c]} != last state {last}")
        if len(per[c]) != n_warm + n_main:
            probs.append(f"chain {c}: {len(per[c])} iterations sampled, requested {n_warm + n_main}")
    return probs


def case_configs(rec, configs):
    rec.encoded(SA.MarkovChainMonteCarloMethod.sample_chains, SA._sample_chain, SA._sample_chains_sequential, SA._sample_chains_parallel,
                SA._sample_chains_worker, SA._init_stats, SA._init_traces, SA._update_chain_stats)
    viol = {}
    base = {}
    for cfg in configs:
        rec.path()
        try:
            res = SL.run(cfg["n_warm"], cfg["n_main"], n_chain=cfg["n_chain"], n_process=cfg["n_process"], trace_warm_up=cfg["trace_warm_up"],
                         stager=cfg["stager"], adapters=cfg["adapters"], force_memmap=cfg["force_memmap"], init=cfg["init"],
                         assignment=(lambda c: c), trace_funcs=cfg.get("traced", True), two_transitions=cfg.get("two_transitions", False))
        except Exception as e:  # noqa: BLE001
            viol.setdefault(f"exception:{type(e).__name__}", (f"{type(e).__name__}: {e}", cfg))
            continue
        for pmsg in _check(res, cfg):
            viol.setdefault("rows:" + pmsg.split(":")[1][:40] if ":" in pmsg else pmsg[:40], (pmsg, cfg))
        # in-memory vs memory-mapped storage return the same values
        key = tuple(sorted((k, str(v)) for k, v in cfg.items() if k not in ("force_memmap",)))
        if cfg["n_process"] == 1:
            if key in base and base[key] != (res["traces"], res["stats"]["tok"]):
                viol.setdefault("memmap-differs", ("in-memory and memory-mapped runs differ", cfg))
            base[key] = (res["traces"], res["stats"]["tok"])
    for k, (msg, cfg) in viol.items():
        rec.candidate(key=f"config:{k}", label=f"{msg} [config {cfg}]", payload={"cfg": cfg})
    rec.sample({"config": configs[0], "n_configs": len(configs)})
    rec.obligation(f"{len(configs)} configurations: every recorded row equals the post-iteration state token", [], z3.BoolVal(False), syntactic=True)


def case_inductive(rec):
    """_sample_chain with a symbolic sample index i and symbolic offset o: exactly row i + o of every array is written."""
    rec.encoded(SA._sample_chain, SA._update_chain_stats)
    i, o = z3.Int("i"), z3.Int("o")

    class SymIdx:
        def __init__(s, e):
            s.e = e

        def __add__(s, other):
            return SymIdx(s.e + (other.e if isinstance(other, SymIdx) else other))

        __radd__ = __add__

    class Proxy:
        def __init__(self, name):
            self.name, self.writes = name, []

        def __setitem__(self, idx, val):
            self.writes.append((idx, val))

    class It:
        def __enter__(self):
            return self

        def __exit__(self, *a):
            return False

        def __iter__(self):
            yield SymIdx(i), {}
    traces = {"pos": Proxy("pos"), "twice": Proxy("twice")}
    stats = {"t": {"tok": Proxy("tok"), "flag": Proxy("flag"), "cnt": Proxy("cnt")}}
    SL.LOG.clear()
    st, ad, exc = SA._sample_chain({"pos": np.array([-1.0])}, It(), SL.TokStream(chain=0), {"t": SL.TokTransition()},
                                   trace_funcs=[SL.trace], chain_traces=traces, chain_stats=stats, sampling_index_offset=SymIdx(o))
    base = [i >= 0, o >= 0]
    rec.reachable("inductive", base)
    for px in list(traces.values()) + list(stats["t"].values()):
        ok_one = len(px.writes) == 1
        idx = px.writes[0][0].e if ok_one and isinstance(px.writes[0][0], SymIdx) else None
        rec.obligation(f"array '{px.name}': exactly one write, at row i + o", base,
                       z3.BoolVal(True) if idx is None else idx != i + o, key=f"inductive:{px.name}-row")
    val_ok = traces["pos"].writes and float(traces["pos"].writes[0][1][0]) == float(st.pos[0]) and stats["t"]["tok"].writes[0][1] == float(st.pos[0])
    rec.obligation("written values are those of the post-transition state", base, z3.BoolVal(not val_ok), key="inductive:value", syntactic=True)


def _configs(tier):
    th = tier == "thorough"
    out = []
    rng_w = range(0, 13) if th else range(0, 6)
    rng_m = range(0, 5) if th else range(0, 4)
    for n_warm, n_main in itertools.product(rng_w, rng_m):
        for twu in (False, True):
            for stager, adapters in (("warmup", "fast"), ("windowed", "slow"), ("default", "none"), ("windowed111", "slow")):
                for n_process in (1, 2, None):
                    if th and n_warm > 4 and (n_process is None or stager == "default"):
                        continue
                    for fm in ((False, True) if n_process == 1 else (False,)):
                        out.append({"n_warm": n_warm, "n_main": n_main, "n_chain": 2, "trace_warm_up": twu, "stager": stager, "adapters": adapters,
                                    "n_process": n_process, "force_memmap": fm, "init": "dict" if (n_warm + n_main) % 2 else "state"})
                    if n_process != None and (th or n_warm <= 3):  # noqa: E711
                        # no trace functions at all: statistics are still recorded for exactly the requested iterations
                        out.append({"n_warm": n_warm, "n_main": n_main, "n_chain": 2, "trace_warm_up": twu, "stager": stager, "adapters": adapters,
                                    "n_process": n_process, "force_memmap": False, "init": "dict", "traced": False})
    # chain counts other than two: a single chain (also with more worker processes than chains) and three chains on two workers
    for n_chain in (1, 3):
        for n_warm, n_main in ((0, 2), (2, 2), (3, 1)):
            for twu in (False, True):
                for n_process, fm in ((1, False), (1, True), (2, False), (3, False), (None, False)):
                    out.append({"n_warm": n_warm, "n_main": n_main, "n_chain": n_chain, "trace_warm_up": twu, "stager": "warmup", "adapters": "fast",
                                "n_process": n_process, "force_memmap": fm, "init": "dict"})
    # composed samplers: two transitions whose statistics share their keys, in memory / memory-mapped / modelled parallel
    for n_warm, n_main in ((0, 2), (2, 2), (3, 1)) + (((5, 3),) if th else ()):
        for twu in (False, True):
            for stager, adapters in (("warmup", "fast"), ("windowed111", "slow")):
                for n_process, fm in ((1, False), (1, True), (2, False), (None, False)):
                    out.append({"n_warm": n_warm, "n_main": n_main, "n_chain": 2, "trace_warm_up": twu, "stager": stager, "adapters": adapters,
                                "n_process": n_process, "force_memmap": fm, "init": "dict", "two_transitions": True})
    return out


def cases(tier):
    cfgs = _configs(tier)
    out = [Case("inductive", case_inductive, {}, timeout_s=300)]
    chunk = 64
    for g in range(0, len(cfgs), chunk):
        out.append(Case(f"configs/{g // chunk}", case_configs, {"configs": cfgs[g:g + chunk]}, timeout_s=1800))
    return out


def replay(cand):
    p = cand.get("payload") or {}
    if "cfg" in p:
        cfg = p["cfg"]
        try:
            res = SL.run(cfg["n_warm"], cfg["n_main"], n_chain=cfg["n_chain"], n_process=cfg["n_process"], trace_warm_up=cfg["trace_warm_up"],
                         stager=cfg["stager"], adapters=cfg["adapters"], force_memmap=cfg["force_memmap"], init=cfg["init"],
                         trace_funcs=cfg.get("traced", True), two_transitions=cfg.get("two_transitions", False))
        except Exception as e:  # noqa: BLE001
            return {"reproduced": True, "detail": f"{type(e).__name__}: {e} for configuration {cfg}"}
        pr = _check(res, cfg)
        return {"reproduced": bool(pr), "detail": f"{pr[:2]} for configuration {cfg}"}
    return {"reproduced": False, "detail": "no replay"}
