"""Problems shared by C02 (reversibility), C03 (symplecticity), C06 (order / consistency):
real integrators on z3 reals, on dual numbers (Jacobians) and on truncated power series in the step size."""
from __future__ import annotations

import numpy as np
import z3

import symx.stubs as stubs
from symx.core import SV, trig_axioms, exprs, cur
from symx.dual import D, dual_array, tangent, value
from symx.series import Ser, germ_norm, series_array, coeffs
from symx.eqcheck import Item, Skip
from harness import matlib as ml
from harness import syslib as sl

stubs.install()
import mici.matrices as M  # noqa: E402
import mici.systems as S  # noqa: E402
import mici.integrators as I  # noqa: E402
import mici.solvers as SO  # noqa: E402
from mici.states import ChainState  # noqa: E402
from mici.errors import IntegratorError, ConvergenceError, NonReversibleStepError  # noqa: E402


def _state(pos, mom, d=1):
    return ChainState(pos=pos, mom=mom, dir=d)


def make_integrator(mk, ikind, sysm, step, **kw):
    if ikind == "leapfrog":
        return I.LeapfrogIntegrator(sysm, step)
    if ikind.startswith("symcomp"):
        # symcompK[h2]: K symbolic free coefficients, optional initial h2 flow
        k = int(ikind[7])
        free = tuple(mk.real(f"coef{i}") for i in range(k))
        return I.SymmetricCompositionIntegrator(sysm, free, step_size=step, initial_h1_flow_step=not ikind.endswith("h2"))
    if ikind == "bcss2":
        return I.BCSSTwoStageIntegrator(sysm, step)
    if ikind == "bcss3":
        return I.BCSSThreeStageIntegrator(sysm, step)
    if ikind == "bcss4":
        return I.BCSSFourStageIntegrator(sysm, step)
    if ikind == "implicit_leapfrog":
        return I.ImplicitLeapfrogIntegrator(sysm, step, **kw)
    if ikind == "implicit_leapfrog_steffensen":
        return I.ImplicitLeapfrogIntegrator(sysm, step, fixed_point_solver=SO.solve_fixed_point_steffensen, **kw)
    if ikind == "implicit_midpoint":
        return I.ImplicitMidpointIntegrator(sysm, step, **kw)
    raise KeyError(ikind)


def _trig(mk, items):
    if not mk.symbolic:
        return
    terms = []
    for it in items:
        if it.kind == "eq":
            terms += exprs(it.code) + exprs(it.ref)
    for ax in trig_axioms(terms):
        mk.require(ax)


# ----------------------------------------------------------------------------- C02 explicit
def prob_reversible(mk, ikind, kind, dim, mkind, n=1, d0=1, uf=True):
    # uf=True: potential and gradient are uninterpreted functions, so the verdict holds for every target density
    sysm, info = sl.make_system(S, M, mk, kind, dim, mkind=mkind, uf=uf)
    eps = mk.pos("eps")
    integ = make_integrator(mk, ikind, sysm, eps)
    q, p = mk.arr("q", dim), mk.arr("p", dim)
    q0, p0 = q.copy(), p.copy()
    s0 = _state(q, p, d0)
    s = s0
    first = None
    for _ in range(n):
        s = integ.step(s)
        if first is None:
            first = s
    s = s.copy()
    s.dir = -s.dir
    for _ in range(n):
        s = integ.step(s)
    tag = f"{ikind}/{kind}/{mkind}/n{n}/dir{d0}"
    items = [Item(f"{tag}: position returns after n forward + n reversed steps", s.pos, q0),
             Item(f"{tag}: momentum returns after n forward + n reversed steps", s.mom, p0),
             Item(f"{tag}: input state position not modified by step", s0.pos, q0),
             Item(f"{tag}: input state momentum not modified by step", s0.mom, p0)]
    same_dir = (s0.dir == d0) and (first is not s0)
    items.append(Item(f"{tag}: input state direction/object not modified", same_dir if not mk.symbolic else z3.BoolVal(bool(same_dir)), None, kind="true"))
    _trig(mk, items)
    return items


# ----------------------------------------------------------------------------- C02/C04 constrained, linear constraint
SOLVERS = {"newton": "solve_projection_onto_manifold_newton", "quasi_newton": "solve_projection_onto_manifold_quasi_newton",
           "line_search": "solve_projection_onto_manifold_newton_with_line_search"}


def prob_constrained(mk, solver, mkind, n_inner=1, n=1, kind="constr"):
    dim = 2
    # potential / gradient uninterpreted: any target density
    sysm, info = sl.make_system(S, M, mk, kind, dim, mkind=mkind, ckind="linear", hausdorff=True, uf=True)
    cm = info["constraint"]
    eps = mk.pos("eps")
    q, p = mk.arr("q", dim), mk.arr("p", dim)
    Md = info["metric_dense"](list(q))
    Mi = ml.inv(Md)
    a = np.array(cm.a, dtype=object if mk.symbolic else float)
    # start on the manifold with cotangent momentum (documented precondition of the integrator), by construction:
    # the offset b is defined as a.q and the momentum is the projection of a free vector
    cm.b = sum(ai * qi for ai, qi in zip(cm.a, q))
    g = a @ (Mi @ a)
    if mk.symbolic:
        mk.require(g != 0)
    p = p - a * ((a @ (Mi @ p)) / g)
    kwargs = {}
    if solver == "line_search":
        kwargs = {"max_line_search_iters": 3}
    integ = I.ConstrainedLeapfrogIntegrator(sysm, eps, n_inner_step=n_inner, projection_solver=getattr(SO, SOLVERS[solver]),
                                            projection_solver_kwargs=dict(max_iters=4, **kwargs))
    q0, p0 = q.copy(), p.copy()
    s0 = _state(q.copy(), p.copy(), 1)
    s = s0
    tag = f"constrained/{solver}/{mkind}/inner{n_inner}/n{n}"
    try:
        for _ in range(n):
            s = integ.step(s)
        fwd = s
        s = s.copy()
        s.dir = -s.dir
        for _ in range(n):
            s = integ.step(s)
    except IntegratorError as e:
        # failing loudly is allowed by the property; nothing to check on this path
        raise Skip(f"integrator raised {type(e).__name__} (allowed: fails loudly)") from e
    zero1 = np.zeros(1) if not mk.symbolic else np.array([SV(0)], dtype=object)
    items = [Item(f"{tag}: position returns", s.pos, q0), Item(f"{tag}: momentum returns", s.mom, p0),
             Item(f"{tag}: stepped position satisfies the constraint", cm.c(list(fwd.pos)), zero1),
             Item(f"{tag}: stepped momentum lies in the cotangent space", np.array([a @ (Mi @ fwd.mom)], dtype=object if mk.symbolic else float), zero1),
             Item(f"{tag}: input state not modified [pos]", s0.pos, q0), Item(f"{tag}: input state not modified [mom]", s0.mom, p0)]
    _trig(mk, items)
    return items


# ----------------------------------------------------------------------------- C06 / C02(i): series in the step size
def _picard(sysm, q0, p0):
    q = series_array(q0)
    p = series_array(p0)
    for _ in range(Ser.N + 1):
        st = _state(q.copy(), p.copy())
        fq = sysm.dh_dmom(st)
        fp = -sysm.dh_dpos(_state(q.copy(), p.copy()))
        q = np.array([Ser([a]) + Ser.lift(f).integrate() for a, f in zip(q0, fq)], dtype=object)
        p = np.array([Ser([a]) + Ser.lift(f).integrate() for a, f in zip(p0, fp)], dtype=object)
    return q, p


def _series_kwargs(ikind):
    if ikind.startswith("implicit"):
        return dict(reverse_check_norm=germ_norm, fixed_point_solver_kwargs={"norm": germ_norm, "max_iters": 12})
    return {}


def _exact_flow_float(sysm, q, p, t, nsub=2000):
    """Reference flow for replays: classical RK4 on Hamilton's equations with many sub-steps."""
    q, p = np.array(q, dtype=float), np.array(p, dtype=float)
    h = t / nsub

    def f(q_, p_):
        st = _state(q_.copy(), p_.copy())
        return np.asarray(sysm.dh_dmom(st), dtype=float), -np.asarray(sysm.dh_dpos(_state(q_.copy(), p_.copy())), dtype=float)
    for _ in range(nsub):
        k1 = f(q, p)
        k2 = f(q + h / 2 * k1[0], p + h / 2 * k1[1])
        k3 = f(q + h / 2 * k2[0], p + h / 2 * k2[1])
        k4 = f(q + h * k3[0], p + h * k3[1])
        q = q + h / 6 * (k1[0] + 2 * k2[0] + 2 * k3[0] + k4[0])
        p = p + h / 6 * (k1[1] + 2 * k2[1] + 2 * k3[1] + k4[1])
    return q, p


def prob_order2(mk, ikind, kind, dim, mkind, origin=False):
    """One step of size eps agrees with the exact flow of the system's own Hamiltonian through eps^2
    (local error O(eps^3)); the energy error has no eps^0..eps^2 term.

    origin=True: the expansion point is q = 0 and the model functions are the GENERAL polynomials of syslib (every monomial
    coefficient a free symbol: potential and metric parameter of degree 3 here (degree 4 in the symplecticity problem) in dim 1,
    degrees 3 / 2 in dim 2).  That
    family is closed under translation (U(q0 + x) is again such a polynomial in x and its coefficients range over all reals as
    those of U do), so the claim at q = 0 for all coefficients is the claim at every q0 - with far smaller terms."""
    # (the eps^0..eps^2 coefficients of a step and of the energy involve derivatives of H up to order 3: degree-3 families)
    sysm, info = sl.make_system(S, M, mk, kind, dim, mkind=mkind, general=3 if origin else False)
    tag = f"{ikind}/{kind}/{mkind}/dim{dim}" + ("/origin" if origin else "")
    if mk.symbolic:
        q, p = mk.arr("q", dim), mk.arr("p", dim)
        if origin:
            q = np.array([SV(0)] * dim, dtype=object)
        if "metric_model" in info:
            info["metric_model"].require_valid(mk, list(q))
        integ = make_integrator(mk, ikind, sysm, Ser([0, 1]), **_series_kwargs(ikind))
        st = _state(series_array(q), series_array(p))
        try:
            out = integ.step(st)
        except IntegratorError as e:
            raise Skip(f"integrator raised {type(e).__name__} in the series domain") from e
        rq, rp = _picard(sysm, list(q), list(p))
        items = []
        for k in range(3):
            items.append(Item(f"{tag}: position coefficient of eps^{k} equals the exact flow's", coeffs(out.pos, k), coeffs(rq, k)))
            items.append(Item(f"{tag}: momentum coefficient of eps^{k} equals the exact flow's", coeffs(out.mom, k), coeffs(rp, k)))
        h0 = Ser.lift(sysm.h(_state(series_array(q), series_array(p))))
        h1 = Ser.lift(sysm.h(_state(out.pos.copy(), out.mom.copy())))
        for k in range(3):
            items.append(Item(f"{tag}: energy error has no eps^{k} term", h1.c[k], h0.c[k]))
        _trig(mk, items)
        return items
    # concrete replay: observed local order from two step sizes against an RK4 reference
    q, p = mk.arr("q", dim), mk.arr("p", dim)
    if origin:
        q = np.zeros(dim)
    errs = []
    for eps in (2e-2, 1e-2):
        integ = make_integrator(mk, ikind, sysm, eps)
        out = integ.step(_state(q.copy(), p.copy()))
        rq, rp = _exact_flow_float(sysm, q, p, eps)
        errs.append(max(np.max(np.abs(out.pos - rq)), np.max(np.abs(out.mom - rp))))
    ratio = errs[0] / errs[1] if errs[1] > 0 else float("inf")
    # third-order local error halves to 1/8; first/second order to 1/2 or 1/4
    ok = (errs[0] < 1e-12) or ratio > 5.5
    msg = Item(f"{tag}: observed local error ratio err(2e-2)/err(1e-2) = {ratio:.2f} (errors {errs[0]:.2e}, {errs[1]:.2e})", ok, None, kind="true")
    # every symbolic label of this problem maps onto this single concrete observation
    out_items = [msg]
    for k in range(3):
        for nm in ("position coefficient of eps^%d equals the exact flow's" % k, "momentum coefficient of eps^%d equals the exact flow's" % k,
                   "energy error has no eps^%d term" % k):
            out_items.append(Item(f"{tag}: {nm}", ok, None, kind="true"))
    return out_items


def prob_order2_constrained(mk, solver="newton", n_inner=1, mkind="identity", hausdorff=True):
    """Constrained leapfrog on a circle (curved manifold), real projection solver in the series domain: one step agrees with
    the exact constrained flow of the system's OWN Hamiltonian through eps^2; energy error has no eps^0..eps^2 term.  The
    reference vector field is derived from the documented Hamiltonian (potential, plus half the log-determinant of the Gram
    matrix J M^-1 J^T when the density is with respect to the Lebesgue measure; kinetic energy with the constant metric M;
    Lagrange multiplier from d^2 c / dt^2 = 0) - not from the system's derivative methods."""
    dim = 2
    sysm, info = sl.make_system(S, M, mk, "constr", dim, mkind=mkind, ckind="sphere", hausdorff=hausdorff)
    cm, model = info["constraint"], info["model"]
    tag = f"constrained/{solver}/inner{n_inner}/{mkind}/{'hausdorff' if hausdorff else 'lebesgue'}"
    a, b, w = mk.real("qa"), mk.real("qb"), mk.real("pw")
    q = np.array([a, b], dtype=object if mk.symbolic else float)
    cm.r2 = a * a + b * b  # the start point defines the radius: on the manifold by construction
    Md = info["metric_dense"](list(q))
    Mi = ml.inv(Md)
    p = Md @ np.array([-b * w, a * w], dtype=object if mk.symbolic else float)  # cotangent: J M^-1 p = 2 q . (M^-1 p) = 0

    def field(qv, pv):
        gU = np.array(model.G(list(qv)), dtype=object if mk.symbolic else float)
        if not hausdorff:
            gU = gU + (Mi @ qv) / (qv @ (Mi @ qv))  # gradient of 1/2 log(4 q^T M^-1 q)
        v = Mi @ pv
        lam = (v @ v - qv @ (Mi @ gU)) / (2 * (qv @ (Mi @ qv)))
        return v, -(gU + lam * (2 * qv))
    if mk.symbolic:
        mk.require((a * a + b * b) > 0)
        Ser.SHIFT_DIV = True
        real_solver = getattr(SO, SOLVERS[solver])

        def forward_only_solver(state, state_prev, time_step, system, **kw):
            # CUT (stated in the evidence): the integrator's internal reversibility check (a second retraction with the negated
            # time step, whose result only decides whether an error is raised - C02's subject) is not executed in the series
            # domain: its normal forms did not finish in 15 minutes.  The forward retraction is the real solver.
            if bool(time_step < 0):
                return state
            return real_solver(state, state_prev, time_step, system, **kw)
        integ = I.ConstrainedLeapfrogIntegrator(sysm, Ser([0, 1]), n_inner_step=n_inner, reverse_check_norm=lambda v: 0.0,
                                                projection_solver=forward_only_solver,
                                                projection_solver_kwargs={"norm": germ_norm, "max_iters": 10})
        try:
            out = integ.step(_state(series_array(q), series_array(p)))
        except IntegratorError as e:
            raise Skip(f"integrator raised {type(e).__name__} in the series domain") from e
        # exact constrained flow by Picard iteration
        qs, ps = series_array(q), series_array(p)
        for _ in range(Ser.N + 1):
            fq, fp = field(qs, ps)
            qs = np.array([Ser([x0]) + Ser.lift(f).integrate() for x0, f in zip(q, fq)], dtype=object)
            ps = np.array([Ser([x0]) + Ser.lift(f).integrate() for x0, f in zip(p, fp)], dtype=object)
        items = []
        for k in range(3):
            items.append(Item(f"{tag}: position coefficient of eps^{k} equals the exact constrained flow's", coeffs(out.pos, k), coeffs(qs, k)))
            items.append(Item(f"{tag}: momentum coefficient of eps^{k} equals the exact constrained flow's", coeffs(out.mom, k), coeffs(ps, k)))
        h0 = Ser.lift(sysm.h(_state(series_array(q), series_array(p))))
        h1 = Ser.lift(sysm.h(_state(out.pos.copy(), out.mom.copy())))
        for k in range(3):
            items.append(Item(f"{tag}: energy error has no eps^{k} term", h1.c[k], h0.c[k]))
        for k in range(Ser.N + 1):
            items.append(Item(f"{tag}: constraint holds at order eps^{k}", Ser.lift(cm.c(list(out.pos))[0]).c[k], SV(0)))
        return items
    errs = []
    for eps in (2e-2, 1e-2):
        integ = I.ConstrainedLeapfrogIntegrator(sysm, eps, n_inner_step=n_inner, projection_solver=getattr(SO, SOLVERS[solver]))
        out = integ.step(_state(q.copy(), p.copy()))
        # reference: RK4 on the constrained vector field
        qq, pp = q.copy(), p.copy()
        nsub = 2000
        hh = eps / nsub
        f = field
        for _ in range(nsub):
            k1 = f(qq, pp); k2 = f(qq + hh / 2 * k1[0], pp + hh / 2 * k1[1]); k3 = f(qq + hh / 2 * k2[0], pp + hh / 2 * k2[1]); k4 = f(qq + hh * k3[0], pp + hh * k3[1])
            qq = qq + hh / 6 * (k1[0] + 2 * k2[0] + 2 * k3[0] + k4[0])
            pp = pp + hh / 6 * (k1[1] + 2 * k2[1] + 2 * k3[1] + k4[1])
        errs.append(max(np.max(np.abs(out.pos - qq)), np.max(np.abs(out.mom - pp))))
    ratio = errs[0] / errs[1] if errs[1] > 0 else float("inf")
    ok = (errs[0] < 1e-12) or ratio > 5.5
    labels = [f"{tag}: {nm}" for k in range(3) for nm in (f"position coefficient of eps^{k} equals the exact constrained flow's",
                                                           f"momentum coefficient of eps^{k} equals the exact constrained flow's",
                                                           f"energy error has no eps^{k} term")] + [f"{tag}: constraint holds at order eps^{k}" for k in range(Ser.N + 1)]
    return [Item(lb + f" [observed error ratio {ratio:.2f}]", ok, None, kind="true") for lb in labels]


def prob_series_reversible(mk, ikind, kind, dim, mkind, n=1, origin=False):
    """Implicit integrators with the real fixed-point solver, in the series domain: n steps forward, flip, n steps
    back return to the start through eps^3 (reversible to O(eps^4) for every state and model coefficient).
    origin=True: start position q = 0 (without loss of generality for polynomial models with free coefficients, see
    prob_order2)."""
    # (the reversed map through eps^3 involves derivatives of H up to order 3)
    sysm, info = sl.make_system(S, M, mk, kind, dim, mkind=mkind, general=3 if origin else False)
    tag = f"{ikind}/{kind}/{mkind}/dim{dim}/n{n}" + ("/origin" if origin else "")
    q, p = mk.arr("q", dim), mk.arr("p", dim)
    if origin:
        q = np.array([SV(0)] * dim, dtype=object) if mk.symbolic else np.zeros(dim)
    if mk.symbolic:
        if "metric_model" in info:
            info["metric_model"].require_valid(mk, list(q))
        integ = make_integrator(mk, ikind, sysm, Ser([0, 1]), **_series_kwargs(ikind))
        s = _state(series_array(q), series_array(p))
        try:
            for _ in range(n):
                s = integ.step(s)
            s = s.copy()
            s.dir = -1
            for _ in range(n):
                s = integ.step(s)
        except IntegratorError as e:
            raise Skip(f"integrator raised {type(e).__name__} in the series domain") from e
        items = []
        for k in range(Ser.N + 1):
            ref_q = np.array([x if k == 0 else SV(0) for x in q], dtype=object)
            ref_p = np.array([x if k == 0 else SV(0) for x in p], dtype=object)
            items.append(Item(f"{tag}: reversed position, eps^{k}", coeffs(s.pos, k), ref_q))
            items.append(Item(f"{tag}: reversed momentum, eps^{k}", coeffs(s.mom, k), ref_p))
        return items
    eps = 1e-2
    integ = make_integrator(mk, ikind, sysm, eps)
    s = _state(q.copy(), p.copy())
    for _ in range(n):
        s = integ.step(s)
    s = s.copy()
    s.dir = -1
    for _ in range(n):
        s = integ.step(s)
    err = max(np.max(np.abs(s.pos - q)), np.max(np.abs(s.mom - p)))
    ok = err < 1e-6
    items = []
    for k in range(Ser.N + 1):
        items.append(Item(f"{tag}: reversed position, eps^{k}", ok, None, kind="true"))
        items.append(Item(f"{tag}: reversed momentum, eps^{k}", ok, None, kind="true"))
    return items


def prob_coefficients(mk, k, h2first=False):
    """Symmetric composition built from any free coefficients: sub-step weights of each component sum to one
    and the sequence is palindromic."""
    model = sl.Model(mk, 1)
    sysm = S.EuclideanMetricSystem(model.neg_log_dens, grad_neg_log_dens=model.grad_neg_log_dens)
    free = tuple(mk.real(f"coef{i}") for i in range(k))
    integ = I.SymmetricCompositionIntegrator(sysm, free, step_size=0.1, initial_h1_flow_step=not h2first)
    c = integ.coefficients
    one = SV(1) if mk.symbolic else 1.0
    items = [Item(f"symcomp{k}: first-component weights sum to one", sum(c[0::2]), one),
             Item(f"symcomp{k}: second-component weights sum to one", sum(c[1::2]), one),
             Item(f"symcomp{k}: coefficients palindromic", np.array(c, dtype=object if mk.symbolic else float),
                  np.array(c[::-1], dtype=object if mk.symbolic else float))]
    flows_ok = len(integ.flows) == len(c) == 2 * k + 3 and all(f == g for f, g in zip(integ.flows, integ.flows[::-1]))
    items.append(Item(f"symcomp{k}: flow sequence palindromic and alternating", flows_ok if not mk.symbolic else z3.BoolVal(bool(flows_ok)), None, kind="true"))
    return items


# ----------------------------------------------------------------------------- C03: symplecticity via dual numbers
def _omega_check(mk, tag, Jm, dim, items):
    """J^T Omega J == Omega for the 2d x 2d Jacobian Jm (rows: outputs (q,p); cols: inputs (q,p))."""
    Om = np.zeros((2 * dim, 2 * dim), dtype=object if mk.symbolic else float)
    for i in range(dim):
        Om[i, dim + i] = 1
        Om[dim + i, i] = -1
    items.append(Item(f"{tag}: J^T Omega J == Omega", Jm.T @ Om @ Jm, Om))


def _jacobian_sym(fn, q, p, dim):
    """Run fn on a dual state carrying the 2*dim tangent directions; return the Jacobian of (pos,mom)."""
    D.K = 2 * dim
    sd = _state(dual_array(q, 0), dual_array(p, dim))
    out = fn(sd)
    rows = list(out.pos) + list(out.mom)
    Jm = np.empty((2 * dim, 2 * dim), dtype=object)
    for i, r in enumerate(rows):
        r = D.lift(r)
        for j in range(2 * dim):
            Jm[i, j] = r.t[j]
    return Jm


def _jacobian_fd(fn, q, p, dim, h=1e-6):
    x0 = np.concatenate([q, p])
    Jm = np.zeros((2 * dim, 2 * dim))
    for j in range(2 * dim):
        e = np.zeros(2 * dim)
        e[j] = h
        a = fn(_state((x0 + e)[:dim].copy(), (x0 + e)[dim:].copy()))
        b = fn(_state((x0 - e)[:dim].copy(), (x0 - e)[dim:].copy()))
        Jm[:, j] = (np.concatenate([a.pos, a.mom]) - np.concatenate([b.pos, b.mom])) / (2 * h)
    return Jm


def prob_symplectic_series(mk, ikind, kind, dim, mkind):
    """Implicit (or any) integrator step with the real fixed-point solver in the series domain, series coefficients being dual
    numbers: the Jacobian J(eps) = sum_k J_k eps^k of the step with respect to the start state satisfies J^T Omega J = Omega
    order by order through eps^3, at the expansion point q = 0 (no loss of generality for polynomial models with free
    coefficients, see prob_order2) and every momentum / model coefficient."""
    sysm, info = sl.make_system(S, M, mk, kind, dim, mkind=mkind, general=True)
    tag = f"{ikind}/{kind}/{mkind}/dim{dim}/origin"
    p = mk.arr("p", dim)
    n2 = 2 * dim
    Om = np.zeros((n2, n2), dtype=object if mk.symbolic else float)
    for i in range(dim):
        Om[i, dim + i] = 1
        Om[dim + i, i] = -1
    if mk.symbolic:
        q = np.array([SV(0)] * dim, dtype=object)
        if "metric_model" in info:
            info["metric_model"].require_valid(mk, list(q))
        D.K = n2
        qd, pd = dual_array(q, 0), dual_array(p, dim)
        st = _state(np.array([Ser([x]) for x in qd], dtype=object), np.array([Ser([x]) for x in pd], dtype=object))
        integ = make_integrator(mk, ikind, sysm, Ser([0, 1]), **_series_kwargs(ikind))
        try:
            out = integ.step(st)
        except IntegratorError as e:
            raise Skip(f"integrator raised {type(e).__name__} in the series domain") from e
        rows = [Ser.lift(r) for r in list(out.pos) + list(out.mom)]
        Js = []
        for k in range(Ser.N + 1):
            Jk = np.empty((n2, n2), dtype=object)
            for i, r in enumerate(rows):
                ck = D.lift(r.c[k])
                for j in range(n2):
                    Jk[i, j] = ck.t[j]
            Js.append(Jk)
        items = []
        zero = np.array([[SV(0)] * n2 for _ in range(n2)], dtype=object)
        for k in range(Ser.N + 1):
            acc = zero
            for a in range(k + 1):
                acc = acc + Js[a].T @ Om @ Js[k - a]
            items.append(Item(f"{tag}: eps^{k} coefficient of J^T Omega J" + (" == Omega" if k == 0 else " vanishes"), acc, Om if k == 0 else zero))
        return items
    # concrete replay: finite-difference Jacobian of the real step (tight solver tolerances) at two step sizes
    q = np.zeros(dim)
    worst, done, eps = 0.0, 0, 0.2
    while done < 2 and eps > 1e-3:
        try:
            integ = make_integrator(mk, ikind, sysm, eps, **({"fixed_point_solver_kwargs": {"convergence_tol": 1e-13, "max_iters": 500}} if ikind.startswith("implicit") else {}))
            Jm = _jacobian_fd(lambda s_: integ.step(s_), q, np.asarray(p, dtype=float), dim, h=1e-5)
            worst = max(worst, float(np.max(np.abs(Jm.T @ Om @ Jm - Om))) / eps ** 2)
            done += 1
        except IntegratorError:
            pass  # the fixed-point iteration needs a smaller step at this point
        eps = eps / 2
    if not done:
        raise Skip("no step size down to 1e-3 for which the real solver converges at this point")
    ok = worst < 1e-3  # a defect at order eps^2 / eps^3 gives O(1) / O(eps) here; finite differences give <= 1e-5
    out_items = []
    for k in range(Ser.N + 1):
        out_items.append(Item(f"{tag}: eps^{k} coefficient of J^T Omega J" + (" == Omega" if k == 0 else " vanishes"), ok, None, kind="true"))
    return out_items


def prob_symplectic_flows(mk, kind, dim, mkind, uf=False, **syskw):
    """Each component flow with a symbolic time is a symplectic map (uf=True: uninterpreted gradient with an uninterpreted
    symmetric Hessian, i.e. any smooth target).  For the constrained systems these are the unprojected component flows in
    ambient coordinates (the h1 kick includes the Gram log-determinant force when the density is not w.r.t. the Hausdorff
    measure): symplectic iff the force is a gradient field."""
    sysm, info = sl.make_system(S, M, mk, kind, dim, mkind=mkind, uf=uf, **syskw)
    q, p = mk.arr("q", dim), mk.arr("p", dim)
    t = mk.real("t1")
    items = []
    for fname in ("h1_flow", "h2_flow"):
        def fn(st, fname=fname):
            getattr(sysm, fname)(st, t)
            return st
        Jm = _jacobian_sym(fn, q, p, dim) if mk.symbolic else _jacobian_fd(fn, q, p, dim)
        _omega_check(mk, f"{kind}/{mkind}/dim{dim}: {fname}", Jm, dim, items)
    _trig(mk, items)
    return items


def prob_symplectic_step(mk, ikind, kind, dim, mkind, n=1, uf=False):
    """End-to-end: n integrator steps preserve the canonical form (kept where the query discharges)."""
    sysm, info = sl.make_system(S, M, mk, kind, dim, mkind=mkind, uf=uf)
    eps = mk.pos("eps")
    integ = make_integrator(mk, ikind, sysm, eps)
    q, p = mk.arr("q", dim), mk.arr("p", dim)

    def fn(st):
        for _ in range(n):
            st = integ.step(st)
        return st
    Jm = _jacobian_sym(fn, q, p, dim) if mk.symbolic else _jacobian_fd(fn, q, p, dim)
    items = []
    _omega_check(mk, f"{ikind}/{kind}/{mkind}/dim{dim}/n{n}: step", Jm, dim, items)
    _trig(mk, items)
    return items


class _Recording:
    """Wraps a system: records which methods write pos/mom during an integrator step (structure obligation)."""

    def __init__(self, sysm):
        self._s = sysm
        self.log = []

    def __getattr__(self, k):
        return getattr(self._s, k)

    def h1_flow(self, state, dt):
        self.log.append(("h1_flow", dt))
        return self._s.h1_flow(state, dt)

    def h2_flow(self, state, dt):
        self.log.append(("h2_flow", dt))
        return self._s.h2_flow(state, dt)


def prob_structure(mk, ikind):
    """One run of _step on an instrumented system: position and momentum are written only inside h1_flow / h2_flow
    calls, with time arguments coefficient * time_step whose coefficients sum to one per component and are palindromic.
    (A composition of symplectic maps is symplectic: trusted lemma.)"""
    dim = 1
    sysm, info = sl.make_system(S, M, mk, "euclid", dim, mkind="diag")
    rec = _Recording(sysm)
    eps = mk.pos("eps")
    integ = make_integrator(mk, ikind, rec, eps)
    q, p = mk.arr("q", dim), mk.arr("p", dim)

    class Watch(ChainState):
        writes = []

        def __setattr__(self, name, value):
            if name in ("pos", "mom"):
                Watch.writes.append((name, len(rec.log)))
            return super().__setattr__(name, value)
    Watch.writes = []
    st = Watch(pos=q.copy(), mom=p.copy(), dir=1)
    before = len(rec.log)
    integ._step(st, eps)
    # replay the recorded flow sequence on a fresh state: must reproduce the step exactly
    st2 = _state(q.copy(), p.copy())
    for name, dt in rec.log:
        getattr(sysm, name)(st2, dt)
    items = [Item(f"{ikind}: step == composition of the recorded component flows [pos]", st.pos, st2.pos),
             Item(f"{ikind}: step == composition of the recorded component flows [mom]", st.mom, st2.mom)]
    one = eps
    s1 = sum(dt for nm, dt in rec.log if nm == "h1_flow")
    s2 = sum(dt for nm, dt in rec.log if nm == "h2_flow")
    # numeric (BCSS) coefficients are binary64 constants: their sum is 1 up to rounding, so compare with a 1e-12 slack
    for nm, sm in (("h1", s1), ("h2", s2)):
        d = sm - one
        if mk.symbolic:
            from symx.core import SB
            ok = SB(z3.And(SV.lift(d).e <= SV.lift(one).e * z3.RealVal("1/1000000000000"),
                           SV.lift(d).e >= -SV.lift(one).e * z3.RealVal("1/1000000000000")))
        else:
            ok = abs(d) <= 1e-12 * one
        items.append(Item(f"{ikind}: {nm} sub-step times sum to the step size", ok, None, kind="true"))
    dts = [dt for _, dt in rec.log]
    items.append(Item(f"{ikind}: sub-step times palindromic", np.array(dts, dtype=object if mk.symbolic else float),
                      np.array(dts[::-1], dtype=object if mk.symbolic else float)))
    return items
