"""C08 - momentum updates leave the Gaussian momentum law exactly invariant.

A scripted generator hands the real ``sample_momentum`` a vector of fresh symbols z.  The map
z -> momentum must be exactly linear (checked against the matrix L read off with basis vectors) with
L L^T equal to the metric at the current position (projected for constrained systems).  Partial
refreshment with a symbolic coefficient c in [0,1]: the new momentum is A p + B z with
A M A^T + B B^T = M; c = 1 and c = 0 reduce to refreshment / identity.
"""
from __future__ import annotations

import numpy as np
import z3

import symx.stubs as stubs
from symx.core import SV
from symx.eqcheck import Item, Skip, run_problem, replay_problem
from symx.harness import Case
from harness import matlib as ml
from harness import syslib as sl

stubs.install()
import mici.matrices as M  # noqa: E402
import mici.systems as S  # noqa: E402
import mici.transitions as T  # noqa: E402
from mici.states import ChainState  # noqa: E402

META = {
    "level": "model_checking",
    "technique": "symbolic execution of sample_momentum / CorrelatedMomentumTransition.sample with a scripted generator "
                 "returning symbolic normal draws; z3 refutes non-linearity and L L^T != metric",
    "explanation": "bounded SMT check: draws, position, metric parameters and refresh coefficient symbolic",
    "bounds": {"quick": {"dim": [1, 2]}, "thorough": {"dim": [1, 2]}},
    "outside": "dim > 2; the generator itself (NumPy's standard_normal is assumed to return i.i.d. N(0,1) draws)",
    "stubs": ["numpy.random.Generator replaced by a scripted object (standard_normal / normal return the given vector)",
              "LAPACK stubs (cholesky, eigh registered decomposition, sqrtm contract)"],
    "assumptions": ["metric positive definite at the position", "denominators recorded during execution are non-zero"],
}


class ScriptRng:
    def __init__(self, z):
        self.z = z
        self.calls = 0

    def standard_normal(self, size=None):
        self.calls += 1
        assert np.shape(self.z) == (tuple(size) if not isinstance(size, int) else (size,)), (np.shape(self.z), size)
        return self.z.copy()

    def normal(self, loc=0.0, scale=1.0, size=None):
        assert loc == 0.0 and scale == 1.0
        return self.standard_normal(size)


def _state(pos, mom=None):
    return ChainState(pos=pos, mom=mom, dir=1)


def _basis(mk, dim, j):
    e = np.zeros(dim, dtype=object if mk.symbolic else float)
    for i in range(dim):
        e[i] = SV(1 if i == j else 0) if mk.symbolic else (1.0 if i == j else 0.0)
    return e


def _build(mk, kind, dim, mkind, ckind):
    if kind == "lowrank":
        # Euclidean system whose metric is a positive-definite low-rank update (sign +1 / -1)
        model = sl.Model(mk, dim)
        obj, Md = ml.make_leaf(M, mk, mkind, dim)
        sysm = S.EuclideanMetricSystem(model.neg_log_dens, metric=obj, grad_neg_log_dens=model.grad_neg_log_dens)
        return sysm, {"metric_dense": lambda q: Md, "model": model}
    if kind == "blockdiag":
        model = sl.Model(mk, dim)
        obj, Md = ml.make_leaf(M, mk, "blockdiag_pd", dim - 1)
        sysm = S.EuclideanMetricSystem(model.neg_log_dens, metric=obj, grad_neg_log_dens=model.grad_neg_log_dens)
        return sysm, {"metric_dense": lambda q: Md, "model": model}
    return sl.make_system(S, M, mk, kind, dim, mkind=mkind, ckind=ckind, hausdorff=True)


def prob_momentum(mk, kind, dim, mkind="diag", ckind="linear"):
    sysm, info = _build(mk, kind, dim, mkind, ckind)
    q = mk.arr("q", dim)
    if "metric_model" in info:
        info["metric_model"].require_valid(mk, list(q))
    z = mk.arr("z", dim)
    p = sysm.sample_momentum(_state(q.copy()), ScriptRng(z))
    L = np.empty((dim, dim), dtype=object if mk.symbolic else float)
    for j in range(dim):
        L[:, j] = sysm.sample_momentum(_state(q.copy()), ScriptRng(_basis(mk, dim, j)))
    tag = f"{kind}/{mkind}"
    items = [Item(f"{tag}: sample_momentum is linear in the normal draws", p, L @ z)]
    if kind == "softabs":
        a = info["alpha"]
        lam = info["model"].H(list(q))[0, 0]
        Md = np.array([[lam / (lam * a).tanh() if mk.symbolic else lam / np.tanh(lam * a)]], dtype=object if mk.symbolic else float)
    else:
        Md = info["metric_dense"](list(q))
    if kind in ("constr", "gauss_constr"):
        J = info["constraint"].J(list(q))
        Mi = ml.inv(Md)
        G = J @ Mi @ J.T
        P = ml.eye(mk, dim) - J.T @ (ml.inv(G) @ (J @ Mi))
        cov = P @ Md @ P.T
        items.append(Item(f"{tag}: sampled momentum lies in the cotangent space", J @ (Mi @ p), np.zeros(1, dtype=float) if not mk.symbolic
                          else np.array([SV(0)], dtype=object)))
    else:
        cov = Md
    items.append(Item(f"{tag}: L L^T == metric (projected for constrained systems)", L @ L.T, cov))
    return items


def prob_correlated(mk, kind, dim, mkind="diag", reassigned=False):
    sysm, info = _build(mk, kind, dim, mkind, "linear")
    q = mk.arr("q", dim)
    if "metric_model" in info:
        info["metric_model"].require_valid(mk, list(q))
    c = mk.real("coeff")
    mk.require(c >= 0)
    mk.require(c <= 1)
    if reassigned:
        # the coefficient is a public attribute: constructed with one value (or the default), used, then set to another
        c0 = mk.real("coeff0")
        mk.require(c0 >= 0)
        mk.require(c0 <= 1)
        tr = T.CorrelatedMomentumTransition(sysm, mom_resample_coeff=c0)
        tr.sample(_state(q.copy(), mk.arr("p0", dim)), ScriptRng(mk.arr("z0", dim)))
        tr.mom_resample_coeff = c
    else:
        tr = T.CorrelatedMomentumTransition(sysm, mom_resample_coeff=c)
    p, z = mk.arr("p", dim), mk.arr("z", dim)
    zero = np.zeros(dim, dtype=float) if not mk.symbolic else np.array([SV(0)] * dim, dtype=object)

    def run(pv, zv):
        st = _state(q.copy(), pv.copy())
        out, stats = tr.sample(st, ScriptRng(zv))
        return out.mom

    new = run(p, z)
    A = np.empty((dim, dim), dtype=object if mk.symbolic else float)
    B = np.empty((dim, dim), dtype=object if mk.symbolic else float)
    for j in range(dim):
        A[:, j] = run(_basis(mk, dim, j), zero)
        B[:, j] = run(zero, _basis(mk, dim, j))
    Md = info["metric_dense"](list(q))
    tag = f"correlated/{kind}/{mkind}" + ("/coefficient re-assigned" if reassigned else "")
    items = [Item(f"{tag}: new momentum is linear in (old momentum, draws)", new, A @ p + B @ z),
             Item(f"{tag}: A M A^T + B B^T == M (Gaussian law preserved)", A @ Md @ A.T + B @ B.T, Md)]
    # coefficient 1 / 0 reduce to full refreshment / no change
    full = sysm.sample_momentum(_state(q.copy()), ScriptRng(z))
    if mk.symbolic:
        is1, is0 = (c == 1), (c == 0)
        if bool(is1):
            items.append(Item(f"{tag}: coefficient 1 is full refreshment", new, full))
        elif bool(is0):
            items.append(Item(f"{tag}: coefficient 0 leaves the momentum unchanged", new, p))
    else:
        if c == 1:
            items.append(Item(f"{tag}: coefficient 1 is full refreshment", new, full))
        elif c == 0:
            items.append(Item(f"{tag}: coefficient 0 leaves the momentum unchanged", new, p))
    return items


PROBS = {"momentum": prob_momentum, "correlated": prob_correlated}


def run_group(rec, probs):
    rec.encoded(S.EuclideanMetricSystem.sample_momentum, S.RiemannianMetricSystem.sample_momentum,
                S.ConstrainedTractableFlowSystem.sample_momentum, S.ConstrainedEuclideanMetricSystem.project_onto_cotangent_space,
                T.CorrelatedMomentumTransition.sample, T.IndependentMomentumTransition.sample,
                M.PositiveDefiniteLowRankUpdateMatrix._construct_sqrt)
    for pname, kw in probs:
        key = "/".join(f"{k}={v}" for k, v in sorted(kw.items()))
        run_problem(rec, PROBS[pname], kw, key_prefix=f"{pname}/{key}:", timeout_ms=60000)


def cases(tier):
    out = []

    def G(name, pname, kw):
        out.append(Case(name, run_group, {"probs": [(pname, kw)]}, timeout_s=900))
    for dim in (1, 2):
        for mkind in ("identity", "diag", "scaled", "dense", "trifact", "eig", "dense_inv", "diag_inv"):
            if dim == 1 and mkind == "eig":
                continue
            G(f"momentum/euclid/{dim}/{mkind}", "momentum", {"kind": "euclid", "dim": dim, "mkind": mkind})
        for kind in ("scalar", "diagonal", "cholesky", "dense"):
            G(f"momentum/{kind}/{dim}", "momentum", {"kind": kind, "dim": dim})
    G("momentum/softabs/1", "momentum", {"kind": "softabs", "dim": 1})
    G("momentum/gauss/2/dense", "momentum", {"kind": "gauss", "dim": 2, "mkind": "dense"})
    for mkind in ("lowrank_pd", "lowrank_pd_neg", "lowrank_pd_inner"):
        for dim in (1, 2):
            G(f"momentum/lowrank/{dim}/{mkind}", "momentum", {"kind": "lowrank", "dim": dim, "mkind": mkind})
    G("momentum/blockdiag/3", "momentum", {"kind": "blockdiag", "dim": 3, "mkind": "blockdiag_pd"})
    for kind in ("constr", "gauss_constr"):
        for mkind in ("identity", "scaled", "diag", "dense"):
            for ckind in ("linear", "sphere"):
                G(f"momentum/{kind}/2/{mkind}/{ckind}", "momentum", {"kind": kind, "dim": 2, "mkind": mkind, "ckind": ckind})
    for kind, mkind in (("euclid", "identity"), ("euclid", "diag"), ("euclid", "dense"), ("diagonal", "diag"), ("scalar", "diag")):
        for dim in (1, 2):
            G(f"correlated/{kind}/{dim}/{mkind}", "correlated", {"kind": kind, "dim": dim, "mkind": mkind})
            if mkind == "diag" and kind in ("euclid", "diagonal"):
                G(f"correlated_reassigned/{kind}/{dim}/{mkind}", "correlated", {"kind": kind, "dim": dim, "mkind": mkind, "reassigned": True})
    return out


def replay(cand):
    name = cand["key"].split("/", 1)[0]
    return replay_problem(PROBS[name], cand, rtol=1e-6)
