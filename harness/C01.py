"""C01 - integration transitions leave exp(-H) exactly invariant.

The real transition classes run on an *abstract orbit*: ChainStates whose position is an integer index, a stub
integrator that moves the index by the direction flag (a bijection: reversibility / volume preservation are
C02/C03's business), and a system whose Hamiltonian at index k is log(1/w_k) with w_k a symbolic positive
weight.  Every random draw is a decision with its exact symbolic probability; the termination criterion is an
arbitrary Boolean function of the sub-tree's end indices.  Obligations (z3, nonlinear real arithmetic):
Metropolis: sum_i w_i P(i->j) = w_j; dynamic: per candidate trajectory (visited interval, termination
literals) sum_i w_i P_G(i->0) = w_0 P_G(0->.), plus sum of path probabilities = 1 per start.
"""
from __future__ import annotations

import math
import time
from fractions import Fraction

import numpy as np
import z3

from symx.canon import Poly, RF
from symx.harness import Case
from symx import weights as W

import mici.utils as U
import mici.transitions as T
from mici.states import ChainState
from mici.errors import IntegratorError

META = {
    "level": "model_checking",
    "technique": "symbolic execution of the real transition classes over an abstract orbit with symbolic positive weights "
                 "and exact symbolic probabilities for every random draw; z3 (NRA) refutes imbalance of the invariance identity",
    "explanation": "bounded SMT check: all weights, all random outcomes (with exact probabilities), the termination predicate "
                   "and the slice level symbolic; tree depth / step count bounded",
    "bounds": {"quick": {"metropolis_n_step": "1-3", "random_range": "[1,4)", "max_tree_depth": "1-2", "extra_subtree_checks": [True, False]},
               "thorough": {"metropolis_n_step": "1-5", "max_tree_depth": "1-2 (multinomial), 1-3 (slice)"}},
    "outside": "tree depth > 2 (multinomial: the depth-3 balance queries did not finish in 70 min) / > 3 (slice); finite divergence threshold for the multinomial sampler (relative to the start energy: exact "
               "invariance is not a theorem there); integrator errors inside a trajectory (C12); the orbit abstraction assumes "
               "the integrator is a bijection with unit Jacobian (C02, C03)",
    "stubs": ["integrator: index shift by the direction flag", "system.h: log(1/w_k)", "numpy.random.Generator: scripted (uniform -> "
              "coin with exact probability, integers -> uniform choice on [lo,hi))", "mici.utils.log_sum_exp / exp on symbolic "
              "logs: exact (their floating-point behaviour is C20)", "builtin min in mici.transitions for the statistics-only "
              "(0, h_diff) call of the dynamic transitions: non-forking recorded value"],
    "assumptions": ["weights strictly positive and finite", "ties between weights (measure zero) attributed to one side consistently"],
}


# ---------------------------------------------------------------- domain glue
_orig_lse = U.log_sum_exp
_orig_exp = U.exp
MIN_MODE = {"stat_only": False}


def _lse(a, b):
    if isinstance(a, W.Log) or isinstance(b, W.Log):
        return W.Log(a.f + b.f)
    return _orig_lse(a, b)


def _exp(x):
    return x.exp() if isinstance(x, W.Log) else _orig_exp(x)


class StatVal:
    """Accumulated Metropolis acceptance statistics (list of weight ratios), never used for control flow."""

    def __init__(self, ratios, div=None):
        self.ratios = ratios
        self.div = div

    def __add__(s, o):
        if isinstance(o, StatVal):
            return StatVal(s.ratios + o.ratios)
        if o == 0:
            return s
        raise TypeError(o)

    __radd__ = __add__

    def __truediv__(s, n):
        return StatVal(s.ratios, n)


class MinStat:
    def __init__(self, ratio):
        self.ratio = ratio

    def exp(self):
        return StatVal([self.ratio])


import builtins


def _min(a, b):
    if MIN_MODE["stat_only"] and isinstance(b, W.Log) and not isinstance(a, W.Log) and a == 0:
        return MinStat(b.f)  # exp(min(0, h_init - h)) = min(1, w/w_init): recorded, not forked on
    return builtins.min(a, b)


class _NP:
    def __getattr__(self, k):
        return getattr(np, k)

    @staticmethod
    def isnan(x):
        if isinstance(x, (W.Log, W.Lin, MinStat, StatVal)):
            return False
        return np.isnan(x)

    @staticmethod
    def exp(x):
        if hasattr(x, "exp") and not isinstance(x, np.ndarray):
            return x.exp()
        return np.exp(x)

    @staticmethod
    def log(x):
        if hasattr(x, "log") and not isinstance(x, np.ndarray):
            return x.log()
        return np.log(x)


def install():
    U.log_sum_exp = _lse
    U.exp = _exp
    T.min = _min
    T.np = _NP()


class Mom:
    """Momentum token: the multiset of orbit indices summed into it (checks the sum_mom bookkeeping)."""

    def __init__(self, idxs):
        self.idxs = tuple(sorted(idxs))

    def __add__(s, o):
        if isinstance(o, np.ndarray):
            o = o.item()
        return Mom(s.idxs + o.idxs)

    __radd__ = __add__


class OrbitSystem:
    def h(self, state):
        return W.Log(RF(Poly.const(1), Poly.var(f"w{_idx(int(state.pos))}")))


def _idx(k):
    return f"m{-k}" if k < 0 else f"{k}"


class OrbitIntegrator:
    step_size = 1.0

    def __init__(self, broken=None):
        self.nstep = 0
        self.visited = []
        self.broken = broken  # orbit edge (b, b+1) that the integrator cannot cross in either direction: IntegratorError
        self.failed = False

    def step(self, state):
        if self.broken is not None and {int(state.pos), int(state.pos) + int(state.dir)} == {self.broken, self.broken + 1}:
            self.failed = True
            from mici.errors import ConvergenceError
            raise ConvergenceError("orbit model: this step fails loudly (implicit / constrained integrators)")
        s = state.copy()
        s.pos = state.pos + state.dir
        s.mom = Mom((int(s.pos),))
        self.nstep += 1
        self.visited.append(int(s.pos))
        return s


def crit(system, s1, s2, sum_mom):
    sm = sum_mom.item() if isinstance(sum_mom, np.ndarray) else sum_mom
    lo, hi = int(s1.pos), int(s2.pos)
    if sm.idxs != tuple(range(lo, hi + 1)):
        raise AssertionError(f"sum_mom handed to the termination criterion covers {sm.idxs}, sub-tree is [{lo},{hi}]")
    return W.WCtx.cur.atom(("T", lo, hi))


class SliceU:
    """rng.uniform() for the slice draw: log(U) - h_init = log(L) with L the shared slice level, L <= w_start."""

    def log(self):
        return _LogU()


class _LogU:
    def __sub__(self, h_init):
        return W.Log(W.wvar("L"))


class Rng:
    def __init__(self, slice_first=False):
        self.slice_first = slice_first
        self.n = 0

    def uniform(self):
        self.n += 1
        if self.slice_first and self.n == 1:
            return SliceU()
        return W.Uniform()

    def integers(self, lo, hi):
        ctx = W.WCtx.cur
        n = hi - lo
        k = ctx.decide(n)
        ctx.prob = ctx.prob * RF(Poly.const(Fraction(1, n)))
        return lo + k


# float probabilities of the slice sampler are ratios of small counts: recover them exactly
_tofrac0 = W.tofrac


def _tofrac(x):
    if isinstance(x, float) and not float(x).is_integer():
        fr = Fraction(x).limit_denominator(64)
        if abs(float(fr) - x) < 1e-12:
            return RF(Poly.const(fr))
    return _tofrac0(x)


W.tofrac = _tofrac


# ---------------------------------------------------------------- z3 side
def _vars_of(polys):
    names = set()
    for p in polys:
        for mono in p.t:
            for a, _ in mono:
                names.add(a)
    return names


def _cond(atoms, V):
    cs = []
    for a, val in atoms.items():
        if a[0] == "pos":
            p, _ = W.rf_to_z3(RF(W.poly_from_key(a[1])), V)
            cs.append(p > 0 if val else p <= 0)
    return z3.And(*cs) if cs else z3.BoolVal(True)


def _atom_names(atoms):
    names = set()
    for a in atoms:
        if a[0] == "pos":
            names |= _vars_of([W.poly_from_key(a[1])])
    return names


def _term(w_name, prob, atoms, V):
    n, d = W.rf_to_z3(prob, V)
    val = V[w_name] * n / d if w_name else n / d
    return z3.If(_cond(atoms, V), val, 0)


# ---------------------------------------------------------------- cases
def _replay_payload(model, V, extra):
    vals = {}
    for n, v in V.items():
        x = model.eval(v, model_completion=True)
        x = z3.simplify(x)
        if z3.is_rational_value(x):
            vals[n] = x.numerator_as_long() / x.denominator_as_long()
        elif z3.is_algebraic_value(x):
            a = x.approx(20)
            vals[n] = a.numerator_as_long() / a.denominator_as_long()
    return dict(extra, weights=vals)


def case_metropolis(rec, n_step=None, n_range=None, broken_edges=False):
    """broken_edges: additionally, for every position b of ONE orbit edge (b, b+1) that the integrator cannot cross (it raises an
    IntegratorError there, in both directions - a step either reverses or fails loudly, C02), balance at the end state 0."""
    install()
    MIN_MODE["stat_only"] = False
    rec.encoded(T.MetropolisIntegrationTransition._sample_n_step, T.MetropolisStaticIntegrationTransition.sample,
                T.MetropolisRandomIntegrationTransition.sample, U.LogRepFloat)
    nmax = n_step if n_step else n_range[1] - 1
    if broken_edges:
        for b in range(-nmax - 1, nmax + 1):
            _case_metropolis_one(rec, n_step, n_range, nmax, b)
    else:
        _case_metropolis_one(rec, n_step, n_range, nmax, None)


def _case_metropolis_one(rec, n_step, n_range, nmax, broken):
    starts = [(i, d) for i in range(-nmax, nmax + 1) for d in (1, -1)]
    total = {}
    one_checks = []
    for (i0, d0) in starts:
        def fn(ctx):
            integ = OrbitIntegrator(broken)
            if n_step:
                tr = T.MetropolisStaticIntegrationTransition(OrbitSystem(), integ, n_step=n_step)
            else:
                tr = T.MetropolisRandomIntegrationTransition(OrbitSystem(), integ, n_step_range=tuple(n_range))
            st = ChainState(pos=i0, mom=Mom((i0,)), dir=d0)
            out, stats = tr.sample(st, Rng())
            try:
                return _metro_stats(out, stats, integ, i0, d0)
            except AssertionError as e:
                return ("viol", str(e))

        def _metro_stats(out, stats, integ, i0, d0):
            # statistics: n_step = steps taken; accept statistic = min(1, w_end/w_start) of the proposed end state
            if stats["n_step"] != integ.nstep:
                raise AssertionError(f"n_step statistic {stats['n_step']} != steps taken {integ.nstep}")
            if integ.failed:
                # the proposal is not an involution image: the chain must stay (direction flipped), acceptance statistic 0
                if not (stats["accept_stat"] == 0.0 and stats["convergence_error"] is True):
                    raise AssertionError("integrator error: accept_stat / convergence_error statistics do not record the failure")
                return int(out.pos), int(out.dir), False
            prop = i0 + d0 * integ.nstep
            want = W.RF(Poly.var(f"w{_idx(prop)}"), Poly.var(f"w{_idx(i0)}"))
            got = W.tofrac(stats["accept_stat"])
            # accept_stat == min(1, ratio): on this path the comparison ratio < 1 has been decided
            is_ratio = W.cmp_poly(got, want).is_zero()
            is_one = W.cmp_poly(got, W.ONE).is_zero()
            if not (is_ratio or is_one) or not W.cmp_poly(W.tofrac(stats["metrop_accept_prob"]), got).is_zero():
                raise AssertionError("accept_stat is neither 1 nor w_end/w_start")
            return int(out.pos), int(out.dir), is_one and not is_ratio
        for res, ctx in W.wexplore(fn):
            rec.path()
            rec.decisions += len(ctx.trace)
            if res[0] == "viol":
                rec.candidate(key="metropolis:statistics", label=res[1],
                              payload={"kind": "stats", "tkind": "metropolis", "n_step": n_step, "n_range": n_range})
                continue
            j, dj, _ = res
            total.setdefault((j, dj), []).append((i0, dict(ctx.atoms), ctx.prob))
            one_checks.append((i0, d0, dict(ctx.atoms), ctx.prob))
    names = set()
    for lst in total.values():
        for i0, atoms, prob in lst:
            names |= _vars_of([prob.n, prob.d]) | _atom_names(atoms) | {f"w{_idx(i0)}"}
    V = {n: z3.Real(n) for n in names}
    for k in list(V):
        pass
    base = [v > 0 for v in V.values()]
    label = f"metropolis n_step={n_step}" if n_step else f"metropolis n_step_range={n_range}"
    if broken is not None:
        label += f", integrator fails on the orbit edge ({broken},{broken + 1})"
    rec.reachable(label, base)
    for (j, dj), lst in sorted(total.items()):
        if j != 0:
            continue  # translation invariance of the abstraction: target index 0 with every start that can reach it
        V.setdefault("w0", z3.Real("w0"))
        lhs = z3.Sum([_term(f"w{_idx(i0)}", prob, atoms, V) for i0, atoms, prob in lst])
        rec.obligation(f"{label}: sum_i w_i P(i -> (0,{dj})) == w_0", base + [V["w0"] > 0], lhs != V["w0"],
                       key=f"metropolis/{'static' if n_step else 'random'}:invariance" + ("" if broken is None else ":integrator-error"),
                       replay=lambda m, V=V: _replay_payload(m, V, {"kind": "metropolis", "n_step": n_step, "n_range": n_range, "broken": broken}),
                       timeout_ms=120000)
    # probabilities of all outcomes from a start sum to one
    by_start = {}
    for i0, d0, atoms, prob in one_checks:
        by_start.setdefault((i0, d0), []).append((atoms, prob))
    for (i0, d0), lst in sorted(by_start.items()):
        if (i0, d0) not in ((0, 1), (0, -1)):
            continue
        tot = z3.Sum([_term(None, prob, atoms, V) for atoms, prob in lst])
        rec.obligation(f"{label}: outcome probabilities from start ({i0},{d0}) sum to 1", base, tot != 1,
                       key="metropolis:total-probability", timeout_ms=60000)


def _dynamic_paths(kind, depth, extra, i0, finite_div=False):
    def fn(ctx):
        integ = OrbitIntegrator()
        cls = T.MultinomialDynamicIntegrationTransition if kind == "multinomial" else T.SliceDynamicIntegrationTransition
        # finite_div (slice sampler only): symbolic divergence threshold max_delta_h = log D, D > 0 a symbol
        mdh = W.Log(W.wvar("D")) if finite_div else math.inf
        tr = cls(OrbitSystem(), integ, max_tree_depth=depth, max_delta_h=mdh, termination_criterion=crit,
                 do_extra_subtree_checks=extra)
        st = ChainState(pos=i0, mom=Mom((i0,)), dir=1)
        if kind == "slice":
            # the slice level satisfies L <= w_start by construction (U <= 1)
            lv = W.cmp_poly(W.wvar("L"), W.RF(Poly.var(f"w{_idx(i0)}")))
            ctx.atoms[("pos", lv.key())] = False
        try:
            out, stats = tr.sample(st, Rng(slice_first=(kind == "slice")))
            return _dyn_stats(out, stats, integ, i0)
        except AssertionError as e:
            return ("viol", str(e)), None

    def _dyn_stats(out, stats, integ, i0):
        if stats["n_step"] != integ.nstep:
            raise AssertionError(f"n_step statistic {stats['n_step']} != steps taken {integ.nstep}")
        av = stats["av_metrop_accept_prob"]
        if integ.nstep:
            if not isinstance(av, StatVal) or av.div != integ.nstep or len(av.ratios) != integ.nstep:
                raise AssertionError("av_metrop_accept_prob is not (sum over visited states)/n_step")
            want = [W.RF(Poly.var(f"w{_idx(k)}"), Poly.var(f"w{_idx(i0)}")) for k in integ.visited]
            if sorted(r.key() for r in av.ratios) != sorted(w.key() for w in want):
                raise AssertionError("acceptance statistic does not range over exactly the visited states")
            if stats["accept_stat"] is not av and not stats.get("diverging"):
                raise AssertionError("accept_stat != av_metrop_accept_prob on an error-free trajectory")
        vis = [i0] + integ.visited
        return int(out.pos), (min(vis), max(vis))
    return fn


def case_dynamic(rec, kind, depth, extra, finite_div=False):
    install()
    MIN_MODE["stat_only"] = True
    rec.encoded(T.DynamicIntegrationTransition.sample, T.DynamicIntegrationTransition._build_tree,
                T.DynamicIntegrationTransition._merge_subtrees, T.DynamicIntegrationTransition._termination_criterion,
                T.DynamicIntegrationTransition._new_leave, U.LogRepFloat,
                T.MultinomialDynamicIntegrationTransition if kind == "multinomial" else T.SliceDynamicIntegrationTransition)
    starts = list(range(-(2 ** depth - 1), 2 ** depth))
    terms = []
    t0 = time.time()
    for i0 in starts:
        for (j, span), ctx in W.wexplore(_dynamic_paths(kind, depth, extra, i0, finite_div)):
            rec.path()
            rec.decisions += len(ctx.trace)
            if isinstance(j, tuple) and j[0] == "viol":
                rec.candidate(key=f"{kind}:statistics-or-bookkeeping", label=j[1],
                              payload={"kind": "stats", "tkind": kind, "depth": depth, "extra": extra})
                continue
            terms.append((i0, j, span, dict(ctx.atoms), ctx.prob))
    rec.note(f"exploration {time.time() - t0:.1f}s, {len(terms)} paths, no solver calls")
    groups = {}
    for i0, j, span, atoms, prob in terms:
        tl = frozenset((a, v) for a, v in atoms.items() if a[0] == "T")
        groups.setdefault((span, tl), []).append((i0, j, {a: v for a, v in atoms.items() if a[0] == "pos"}, prob))
    label = f"{kind} depth={depth} extra_checks={extra}" + (" finite symbolic divergence threshold" if finite_div else "")
    nq = 0
    if finite_div:
        # with a divergence threshold the per-trajectory lemma is not the right decomposition (which states are visited
        # depends on the slice level); the slice sampler's conditions are linear in (L, w, D w), so the GLOBAL identity
        # sum_i [L <= w_i] P(i -> 0 | L, T) == [L <= w_0] is posed directly, for every termination predicate T
        names = {"w0", "L", "D"}
        for i0, j, span, atoms, prob in terms:
            names |= _vars_of([prob.n, prob.d]) | _atom_names(atoms) | {f"w{_idx(i0)}"}
        V = {n: z3.Real(n) for n in names}
        Tb = {}

        def cond_all(atoms):
            cs = []
            for a, val in atoms.items():
                if a[0] == "pos":
                    pz, _ = W.rf_to_z3(RF(W.poly_from_key(a[1])), V)
                    cs.append(pz > 0 if val else pz <= 0)
                elif a[0] == "T":
                    b = Tb.setdefault(a, z3.Bool(f"T_{a[1]}_{a[2]}".replace("-", "m")))
                    cs.append(b if val else z3.Not(b))
            return z3.And(*cs) if cs else z3.BoolVal(True)
        lhs = []
        for i0, j, span, atoms, prob in terms:
            if j != 0:
                continue
            n_, d_ = W.rf_to_z3(prob, V)
            lhs.append(z3.If(cond_all(atoms), n_ / d_, 0))
        base = [v > 0 for v in V.values()] + [V["D"] >= 1]  # max_delta_h >= 0
        rec.reachable(label, base)
        rhs = z3.If(V["L"] <= V["w0"], z3.RealVal(1), z3.RealVal(0))
        rec.obligation(f"{label}: sum_i [L<=w_i] P(i->0 | L, T) == [L<=w_0] for every L, D, T", base, z3.Sum(lhs + [z3.RealVal(0)]) != rhs,
                       key=f"{kind}/depth{depth}/extra{extra}/div:global-balance",
                       replay=lambda m: _replay_payload(m, V, {"kind": kind, "depth": depth, "extra": extra, "finite_div": True,
                                                               "T": [[a[1], a[2], bool(z3.is_true(m.eval(b, model_completion=True)))] for a, b in Tb.items()]}),
                       timeout_ms=600000)
        return
    for (span, tl), items in sorted(groups.items(), key=lambda kv: (kv[0][0], sorted(map(str, kv[0][1])))):
        if not any(j == 0 for _, j, _, _ in items) and not any(i0 == 0 for i0, _, _, _ in items):
            continue
        names = {"w0"}
        for i0, j, atoms, prob in items:
            names |= _vars_of([prob.n, prob.d]) | _atom_names(atoms) | {f"w{_idx(i0)}"}
        V = {n: z3.Real(n) for n in names}
        base = [v > 0 for v in V.values()]
        if kind == "slice":
            V.setdefault("L", z3.Real("L"))
            base = [v > 0 for v in V.values()]
            # sum_i [L <= w_i] P_G(i -> 0 | L) == [L <= w_0] P_G(0 -> . | L)
            lhs = [_term(None, p, a, V) for i0, j, a, p in items if j == 0]
            rhs = [_term(None, p, a, V) for i0, j, a, p in items if i0 == 0]
        else:
            lhs = [_term(f"w{_idx(i0)}", p, a, V) for i0, j, a, p in items if j == 0]
            rhs = [_term("w0", p, a, V) for i0, j, a, p in items if i0 == 0]
        neg = z3.Sum(lhs + [z3.RealVal(0)]) != z3.Sum(rhs + [z3.RealVal(0)])
        nq += 1
        tlits = sorted((a[1], a[2], v) for a, v in tl)
        rec.obligation(f"{label}: trajectory {span} T={tlits}: sum_i w_i P_G(i->0) == w_0 P_G(0->.)", base, neg,
                       key=f"{kind}/depth{depth}/extra{extra}{'/div' if finite_div else ''}:trajectory-balance",
                       replay=lambda m, V=V: _replay_payload(m, V, {"kind": kind, "depth": depth, "extra": extra, "finite_div": finite_div,
                                                                   "T": [[a, b, bool(v)] for a, b, v in tlits]}),
                       timeout_ms=180000)
    # total probability from start 0 is one (so the per-trajectory lemma sums to global invariance)
    from0 = [(a, p) for i0, j, span, a, p in terms if i0 == 0]
    names = set()
    for a, p in from0:
        names |= _vars_of([p.n, p.d]) | _atom_names(a)
    V = {n: z3.Real(n) for n in names}
    Tb = {}

    def cond_all(atoms):
        cs = []
        for a, val in atoms.items():
            if a[0] == "pos":
                pz, _ = W.rf_to_z3(RF(W.poly_from_key(a[1])), V)
                cs.append(pz > 0 if val else pz <= 0)
            elif a[0] == "T":
                b = Tb.setdefault(a, z3.Bool(f"T_{a[1]}_{a[2]}".replace("-", "m")))
                cs.append(b if val else z3.Not(b))
        return z3.And(*cs) if cs else z3.BoolVal(True)
    tot = []
    for a, p in from0:
        n, d = W.rf_to_z3(p, V)
        tot.append(z3.If(cond_all(a), n / d, 0))
    base = [v > 0 for v in V.values()]
    if kind == "slice" and "L" in V and "w0" in V:
        base.append(V["L"] <= V["w0"])
    rec.reachable(label, base)
    # (total probability is one by construction of the enumeration - every coin fork multiplies by p and 1 - p; as a z3 query it
    # only discharges at depth 1 and is posed there as a consistency check of the explorer)
    if depth == 1:
        rec.obligation(f"{label}: path probabilities from start 0 sum to 1", base, z3.Sum(tot) != 1, key=f"{kind}:total-probability",
                       timeout_ms=120000)


def cases(tier):
    out = []
    th = tier == "thorough"
    for n in ((1, 2, 3, 4, 5) if th else (1, 2, 3)):
        out.append(Case(f"metropolis/static/{n}", case_metropolis, {"n_step": n}, timeout_s=900))
    out.append(Case("metropolis/random/1-4", case_metropolis, {"n_range": [1, 4]}, timeout_s=900))
    for n in ((2, 3, 4) if th else (2, 3)):
        out.append(Case(f"metropolis/static/{n}/integrator_error", case_metropolis, {"n_step": n, "broken_edges": True}, timeout_s=1800))
    out.append(Case("metropolis/random/1-4/integrator_error", case_metropolis, {"n_range": [1, 4], "broken_edges": True}, timeout_s=1800))
    if th:
        out.append(Case("metropolis/random/2-6", case_metropolis, {"n_range": [2, 6]}, timeout_s=1800))
    for kind in ("multinomial", "slice"):
        # depth 3: the slice sampler's obligations are decided during exploration (6 min); the multinomial balance queries at
        # depth 3 did not finish in 70 min and are outside the claim
        for depth in ((1, 2, 3) if th and kind == "slice" else (1, 2)):
            for extra in (True, False):
                out.append(Case(f"{kind}/depth{depth}/extra{extra}", case_dynamic, {"kind": kind, "depth": depth, "extra": extra},
                                timeout_s=7200 if depth == 3 else 1500))
    for extra in (True, False):
        out.append(Case(f"slice/depth2/extra{extra}/divergence", case_dynamic, {"kind": "slice", "depth": 2, "extra": extra, "finite_div": True},
                        timeout_s=3000))
    return out


# ---------------------------------------------------------------- concrete replay: exact enumeration with floats
def replay(cand):
    """Exact enumeration of every random outcome of the *real* transition (real LogRepFloat arithmetic) on the orbit with
    the model's concrete weights: computes sum_i w_i P(i->0) and compares with w_0."""
    p = cand.get("payload") or {}
    wts = p.get("weights", {})

    def w(k):
        return float(wts.get(f"w{_idx(k)}", 1.0))

    class CSys:
        def h(self, state):
            return -math.log(w(int(state.pos)))

    class CRng:
        def __init__(self, script, level=None):
            self.script = script
            self.k = 0
            self.prob = 1.0
            self.level = level
            self.first = True

        def uniform(self):
            if self.level is not None and self.first:
                self.first = False
                return self.level
            return _CU(self)

        def integers(self, lo, hi):
            n = hi - lo
            c = self._next(n)
            self.prob *= 1.0 / n
            return lo + c

        def _next(self, n):
            if self.k < len(self.script):
                c = self.script[self.k]
            else:
                c = 0
                self.script.append(0)
            self.k += 1
            self.log.append(n)
            return c

    class _CU:
        def __init__(self, r):
            self.r = r

        def __lt__(self, pr):
            pr = float(pr)
            pr = min(max(pr, 0.0), 1.0)
            if pr >= 1.0:
                return True
            if pr <= 0.0:
                return False
            c = self.r._next(2)
            self.r.prob *= pr if c == 0 else 1 - pr
            return c == 0

    def enumerate_from(make, i0, d0, level=None):
        outs = {}
        script = []
        while True:
            rng = CRng(list(script), level)
            rng.log = []
            tr, integ = make()
            st = ChainState(pos=i0, mom=Mom((i0,)), dir=d0)
            out, stats = tr.sample(st, rng)
            key = (int(out.pos), int(out.dir))
            outs[key] = outs.get(key, 0.0) + rng.prob
            sc, lg = rng.script[: rng.k], rng.log
            while sc and sc[-1] + 1 >= lg[len(sc) - 1]:
                sc.pop()
            if not sc:
                break
            sc[-1] += 1
            script = sc
        return outs

    kind = p.get("kind")
    if kind == "stats":
        return _replay_stats(p)
    if kind == "metropolis":
        n_step, n_range = p.get("n_step"), p.get("n_range")
        nmax = n_step if n_step else n_range[1] - 1

        def make():
            integ = OrbitIntegrator(p.get("broken"))
            if n_step:
                return T.MetropolisStaticIntegrationTransition(CSys(), integ, n_step=n_step), integ
            return T.MetropolisRandomIntegrationTransition(CSys(), integ, n_step_range=tuple(n_range)), integ
        worst = 0.0
        for dj in (1, -1):
            tot = 0.0
            for i0 in range(-nmax, nmax + 1):
                for d0 in (1, -1):
                    tot += w(i0) * enumerate_from(make, i0, d0).get((0, dj), 0.0)
            worst = max(worst, abs(tot - w(0)) / w(0))
        return {"reproduced": bool(worst > 1e-9), "detail": f"max relative imbalance of sum_i w_i P(i->0) vs w_0: {worst:.3e} with weights {wts}"}
    depth, extra = p.get("depth"), p.get("extra")
    Tset = {(a, b): v for a, b, v in p.get("T", [])}

    def ccrit(system, s1, s2, sum_mom):
        return Tset.get((int(s1.pos), int(s2.pos)), False)

    def make():
        integ = OrbitIntegrator()
        cls = T.MultinomialDynamicIntegrationTransition if kind == "multinomial" else T.SliceDynamicIntegrationTransition
        mdh = math.log(float(wts.get("D", 1.0))) if p.get("finite_div") else math.inf
        return cls(CSys(), integ, max_tree_depth=depth, max_delta_h=mdh, termination_criterion=ccrit,
                   do_extra_subtree_checks=extra), integ
    lim = 2 ** depth - 1
    if kind == "multinomial":
        tot = 0.0
        for i0 in range(-lim, lim + 1):
            for (j, dj), pr in enumerate_from(make, i0, 1).items():
                if j == 0:
                    tot += w(i0) * pr
        err = abs(tot - w(0)) / w(0)
        return {"reproduced": bool(err > 1e-9), "detail": f"global imbalance |sum_i w_i P(i->0) - w_0|/w_0 = {err:.3e}; weights {wts}; T={p.get('T')}"}
    # slice: integrate over the level L on a grid of cells between sorted weights (P is piecewise constant in L)
    ws = sorted({w(k) for k in range(-2 * lim - 1, 2 * lim + 2)})
    edges = [0.0] + ws
    tot = 0.0
    for a, b in zip(edges[:-1], edges[1:]):
        if b <= a:
            continue
        L = 0.5 * (a + b)
        for i0 in range(-lim, lim + 1):
            if L > w(i0):
                continue
            u = L / w(i0)
            for (j, dj), pr in enumerate_from(make, i0, 1, level=u).items():
                if j == 0:
                    tot += (b - a) * pr
    err = abs(tot - w(0)) / w(0)
    return {"reproduced": bool(err > 1e-9), "detail": f"slice sampler: |int sum_i [L<=w_i] P(i->0|L) dL - w_0|/w_0 = {err:.3e}; weights {wts}; T={p.get('T')}"}


def _replay_stats(p):
    """Concrete runs of the real transition on the orbit with random weights and a seeded generator: the reported step
    count must equal the steps taken, the acceptance statistic the mean of min(1, w_k/w_start) over visited states, and the
    momentum sums handed to the termination criterion must cover exactly the sub-tree."""
    rng = np.random.default_rng(12345)
    bad = None
    for trial in range(300):
        wt = {k: float(np.exp(rng.normal())) for k in range(-40, 41)}

        class CSys:
            def h(self, state):
                return -math.log(wt[int(state.pos)])
        integ = OrbitIntegrator()
        err = []

        def ccrit(system, s1, s2, sum_mom):
            sm = sum_mom.item() if isinstance(sum_mom, np.ndarray) else sum_mom
            lo, hi = int(s1.pos), int(s2.pos)
            if sm.idxs != tuple(range(lo, hi + 1)):
                err.append(f"sum_mom covers {sm.idxs} for sub-tree [{lo},{hi}]")
            return bool(rng.uniform() < 0.2)
        tk = p["tkind"]
        if tk == "metropolis":
            if p.get("n_step"):
                tr = T.MetropolisStaticIntegrationTransition(CSys(), integ, n_step=p["n_step"])
            else:
                tr = T.MetropolisRandomIntegrationTransition(CSys(), integ, n_step_range=tuple(p["n_range"]))
        else:
            cls = T.MultinomialDynamicIntegrationTransition if tk == "multinomial" else T.SliceDynamicIntegrationTransition
            tr = cls(CSys(), integ, max_tree_depth=p["depth"], max_delta_h=math.inf, termination_criterion=ccrit,
                     do_extra_subtree_checks=p["extra"])
        st = ChainState(pos=0, mom=Mom((0,)), dir=1)
        out, stats = tr.sample(st, rng)
        if stats["n_step"] != integ.nstep:
            bad = f"n_step statistic {stats['n_step']} but {integ.nstep} integrator steps were taken"
        elif err:
            bad = err[0]
        elif integ.nstep:
            if tk == "metropolis":
                want = min(1.0, wt[integ.visited[-1]] / wt[0])
            else:
                want = float(np.mean([min(1.0, wt[k] / wt[0]) for k in integ.visited]))
            if abs(float(stats["accept_stat"]) - want) > 1e-9:
                bad = f"accept_stat {float(stats['accept_stat'])} but mean Metropolis acceptance over visited states is {want}"
        if bad:
            break
    return {"reproduced": bad is not None, "detail": bad or "statistics consistent in 300 seeded concrete runs"}
