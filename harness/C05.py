"""C05 - Hamiltonian values and derivative methods of every system are consistent.

The real system classes run on z3-valued states.  The true partial derivatives are the tangent
parts of h1/h2/h evaluated by the *same real code* on dual-number states; the Hamiltonian value is
compared with the documented formula written independently with explicit dense determinants/inverses.
Concrete replay: central finite differences of the real h1/h2/h.
"""
from __future__ import annotations

import numpy as np
import z3

import symx.stubs as stubs
from symx.core import SV
from symx.dual import D, dual_array, tangent, value
from symx.eqcheck import Item, Skip, run_problem, replay_problem
from symx.harness import Case
from harness import matlib as ml
from harness import syslib as sl

stubs.install()
import mici.matrices as M  # noqa: E402
import mici.systems as S  # noqa: E402
from mici.states import ChainState  # noqa: E402

META = {
    "level": "model_checking",
    "technique": "symbolic execution of mici.systems on z3 reals and on dual numbers over z3 reals; z3 refutes "
                 "derivative-method != tangent of the Hamiltonian component, and h != documented formula",
    "explanation": "bounded SMT check: positions, momenta and all polynomial model coefficients symbolic",
    "bounds": {"quick": {"dim": [1, 2], "density_degree": 3, "metric_degree": 2, "constraints": 1},
               "thorough": {"dim": [1, 2], "density_degree": 3, "metric_degree": 2, "constraints": 1}},
    "outside": "dim > 2; non-polynomial model functions; SoftAbs with non-diagonal Hessians; autodiff back ends "
               "(derivative functions are supplied explicitly in both accepted return conventions)",
    "stubs": ["LAPACK stubs of symx.stubs", "LOG / TANH / SINH / COSH uninterpreted with the axioms of symx.core"],
    "assumptions": ["metric positive definite at the evaluation point (documented precondition)",
                    "denominators recorded during execution are non-zero"],
}


def _state(pos, mom):
    return ChainState(pos=pos, mom=mom, dir=1)


def _fd(f, x, h=1e-6):
    g = np.zeros(len(x))
    for i in range(len(x)):
        e = np.zeros(len(x))
        e[i] = h
        g[i] = (f(x + e) - f(x - e)) / (2 * h)
    return g


def prob_system(mk, kind, dim, mkind="diag", convention="plain", ckind="linear", hausdorff=True):
    sysm, info = sl.make_system(S, M, mk, kind, dim, mkind=mkind, convention=convention, ckind=ckind, hausdorff=hausdorff)
    q = mk.arr("q", dim)
    p = mk.arr("p", dim)
    if "metric_model" in info:
        info["metric_model"].require_valid(mk, list(q))
    items = []
    sp = _state(q.copy(), p.copy())
    tag = f"{kind}"
    # ---- values: h = h1 + h2 and the documented formula
    h1, h2, h = sysm.h1(sp), sysm.h2(sp), sysm.h(sp)
    items.append(Item(f"{tag}: h == h1 + h2", h, h1 + h2))
    model = info["model"]
    Md = info["metric_dense"](list(q)) if kind != "softabs" else None
    U = model.U(list(q))
    if kind == "softabs":
        a = info["alpha"]
        Hq = model.H(list(q))
        if dim == 1:
            lam = Hq[0, 0]
            sa = lam / (lam * a).tanh() if mk.symbolic else lam / np.tanh(lam * a)
            Md = np.array([[sa]], dtype=object if mk.symbolic else float)
        else:
            raise Skip("softabs dim 2 handled by prob_softabs_diag")
    kin = 0.5 * (p @ (ml.inv(Md) @ p))
    if kind in ("gauss", "gauss_constr"):
        kin = kin + 0.5 * (q @ q)
    items.append(Item(f"{tag}: h2 == documented kinetic term", h2, kin))
    if kind in ("euclid", "gauss") or (kind == "constr" and info["hausdorff"]):
        items.append(Item(f"{tag}: h1 == neg log density", h1, U))
    else:
        if kind in ("constr", "gauss_constr"):
            J = info["constraint"].J(list(q))
            G = J @ ml.inv(Md) @ J.T
            ref = abs(ml.det(G))
        else:
            ref = abs(ml.det(Md))
        # h1 = U + 1/2 log|det|  <=>  exp(2 (h1 - U)) = |det|
        items.append(Item(f"{tag}: h1 == neg log density + half log-determinant term", 2 * (h1 - U), ref, kind="logabs"))
    # ---- derivatives
    if mk.symbolic:
        D.K = 2 * dim
        sd = _state(dual_array(q, 0), dual_array(p, dim))
        comps = {"h1": D.lift(sysm.h1(sd)), "h2": D.lift(sysm.h2(sd)), "h": D.lift(sysm.h(sd))}

        def dref(name, wrt):
            off = 0 if wrt == "pos" else dim
            return np.array([comps[name].t[off + i] for i in range(dim)], dtype=object)
    else:
        def dref(name, wrt):
            f = getattr(sysm, name)
            if wrt == "pos":
                return _fd(lambda x: float(f(_state(x, p.copy()))), np.asarray(q, dtype=float))
            return _fd(lambda x: float(f(_state(q.copy(), x))), np.asarray(p, dtype=float))
    sp2 = _state(q.copy(), p.copy())
    items.append(Item(f"{tag}: dh1_dpos", sysm.dh1_dpos(sp2), dref("h1", "pos")))
    items.append(Item(f"{tag}: dh2_dpos", sysm.dh2_dpos(sp2), dref("h2", "pos")))
    items.append(Item(f"{tag}: dh2_dmom", sysm.dh2_dmom(sp2), dref("h2", "mom")))
    items.append(Item(f"{tag}: dh_dpos", sysm.dh_dpos(sp2), dref("h", "pos")))
    items.append(Item(f"{tag}: dh_dmom", sysm.dh_dmom(sp2), dref("h", "mom")))
    sp3 = _state(q.copy(), p.copy())
    items.append(Item(f"{tag}: dh_dpos == dh1_dpos + dh2_dpos", sysm.dh_dpos(sp3), sysm.dh1_dpos(sp3) + sysm.dh2_dpos(sp3)))
    if mk.symbolic:
        zero = np.array([SV(0)] * dim, dtype=object)
        items.append(Item(f"{tag}: h1 does not depend on the momentum", np.array([comps["h1"].t[dim + i] for i in range(dim)], dtype=object), zero))
    return items


PROBS = {"system": prob_system}


def _configs(tier):
    cfg = []
    for dim in (1, 2):
        for mkind in ("identity", "diag", "dense", "scaled", "trifact", "eig", "diag_array", "dense_array"):
            if dim == 1 and mkind in ("eig",):
                continue
            for conv in ("plain", "aux"):
                if conv == "aux" and mkind not in ("diag", "dense"):
                    continue
                cfg.append({"kind": "euclid", "dim": dim, "mkind": mkind, "convention": conv})
                cfg.append({"kind": "gauss", "dim": dim, "mkind": mkind, "convention": conv})
    for mkind in (("identity", "scaled", "diag", "dense") if tier == "thorough" else ("identity", "scaled", "diag")):
        for ckind in ("linear", "sphere"):
            for haus in (True, False):
                for conv in ("plain", "aux"):
                    if conv == "aux" and mkind != "diag":
                        continue
                    cfg.append({"kind": "constr", "dim": 2, "mkind": mkind, "ckind": ckind, "hausdorff": haus, "convention": conv})
            cfg.append({"kind": "gauss_constr", "dim": 2, "mkind": mkind, "ckind": ckind, "convention": "plain"})
    cfg.append({"kind": "gauss_constr", "dim": 2, "mkind": "diag", "ckind": "sphere", "convention": "aux"})
    th = tier == "thorough"
    for kind in ("scalar", "diagonal", "cholesky", "dense"):
        for dim in (1, 2):
            if kind == "dense" and dim == 2 and not th:
                continue  # dense 2x2 position-dependent metric: > 20 min per case, thorough tier only
            for conv in ("plain", "aux"):
                cfg.append({"kind": kind, "dim": dim, "convention": conv})
    cfg.append({"kind": "softabs", "dim": 1, "convention": "plain"})
    # the generic RiemannianMetricSystem with a metric class whose parameter is a tuple (block diagonal)
    cfg.append({"kind": "blockdiag", "dim": 2, "convention": "plain"})
    cfg.append({"kind": "blockdiag", "dim": 2, "convention": "aux"})
    if th:
        cfg.append({"kind": "softabs", "dim": 1, "convention": "aux"})
    return cfg


def run_group(rec, probs):
    rec.encoded(S.System.h, S.System.dh_dpos, S.System.dh_dmom, S.System.h1, S.System.dh1_dpos)
    for pname, kw in probs:
        cls = {"euclid": S.EuclideanMetricSystem, "gauss": S.GaussianEuclideanMetricSystem,
               "constr": S.DenseConstrainedEuclideanMetricSystem, "gauss_constr": S.GaussianDenseConstrainedEuclideanMetricSystem,
               "scalar": S.ScalarRiemannianMetricSystem, "diagonal": S.DiagonalRiemannianMetricSystem,
               "cholesky": S.CholeskyFactoredRiemannianMetricSystem, "dense": S.DenseRiemannianMetricSystem,
               "softabs": S.SoftAbsRiemannianMetricSystem, "blockdiag": S.RiemannianMetricSystem}[kw["kind"]]
        rec.encoded(cls, S.RiemannianMetricSystem if kw["kind"] in ("scalar", "diagonal", "cholesky", "dense", "softabs") else cls)
        key = "/".join(f"{k}={v}" for k, v in sorted(kw.items()) if k != "convention")
        run_problem(rec, PROBS[pname], kw, key_prefix=f"{key}:", timeout_ms=60000)


def cases(tier):
    out = []
    for kw in _configs(tier):
        name = "/".join(str(v) for v in kw.values())
        out.append(Case(f"system/{name}", run_group, {"probs": [("system", kw)]}, timeout_s=1200))
    return out


def replay(cand):
    return replay_problem(prob_system, cand, rtol=2e-4)
