"""C07 - component flow maps are the exact flows of their Hamiltonian components.

h1_flow / h2_flow of the tractable-flow systems run on z3-valued states with a symbolic time.
Euclidean drift: closed form, energy, additivity, inverse.  Gaussian split: the rotation in the metric
eigenbasis with SIN/COS uninterpreted + Pythagoras + angle-addition/parity instances; Hamilton's
equations by differentiating the real flow in t with dual numbers.  dh2_flow_dmom against the tangents
of h2_flow run on dual momenta.
"""
from __future__ import annotations

import numpy as np
import z3

import symx.stubs as stubs
from symx.core import SV, trig_axioms, exprs, cur
from symx.dual import D, dual_array, tangent, value
from symx.eqcheck import Item, Skip, run_problem, replay_problem
from symx.harness import Case
from harness import matlib as ml
from harness import syslib as sl

stubs.install()
import mici.matrices as M  # noqa: E402
import mici.systems as S  # noqa: E402
from mici.states import ChainState  # noqa: E402

META = {
    "level": "model_checking",
    "technique": "symbolic execution of the real flow methods on z3 reals / dual numbers; z3 refutes each flow identity",
    "explanation": "bounded SMT check: state, time(s), metric parameters and model coefficients symbolic; sin/cos "
                   "uninterpreted with the instantiated identities listed",
    "bounds": {"quick": {"dim": [1, 2]}, "thorough": {"dim": [1, 2]}},
    "outside": "dim > 2; properties of sin/cos beyond Pythagoras, angle addition and parity (e.g. periodicity is not "
               "needed: the time is an arbitrary real, so intervals longer than a period are covered)",
    "stubs": ["LAPACK stubs", "SIN/COS uninterpreted: s^2+c^2=1, addition and parity formulas instantiated at occurring angles"],
    "assumptions": ["denominators recorded during execution are non-zero"],
}


def _state(pos, mom):
    return ChainState(pos=pos, mom=mom, dir=1)


def _mk_sys(mk, kind, dim, mkind, ckind="linear"):
    return sl.make_system(S, M, mk, kind, dim, mkind=mkind, ckind=ckind, hausdorff=True)


class _Pref:
    """mk proxy that prefixes every symbol name (a second, independent metric for the same system)."""

    def __init__(self, mk, pre):
        self._mk, self._pre = mk, pre

    def __getattr__(self, k):
        f = getattr(self._mk, k)
        if not callable(f):
            return f

        def g(*a, **kw):
            if a and isinstance(a[0], str):
                a = (self._pre + a[0],) + a[1:]
            return f(*a, **kw)
        return g


def _remetric(mk, sysm, info, dim, mkind, q, p, t):
    """The metric of a system is re-assigned after the system has been used with the same state and time (what the metric adapters
    do at the end of an adaptive stage): every flow property must hold for the system as it is *now*."""
    if mkind == "identity":
        raise Skip("identity metric: nothing to re-assign")
    s = _state(q.copy(), p.copy())
    sysm.h2_flow(s, t)
    sysm.h2(_state(q.copy(), p.copy()))
    sysm.dh2_dmom(_state(q.copy(), p.copy()))
    if hasattr(sysm, "dh2_flow_dmom"):
        try:
            sysm.dh2_flow_dmom(_state(q.copy(), p.copy()), t)
        except (ValueError, NotImplementedError):
            pass  # (t == 0: Matrix * 0 is documented as unsupported; the warm-up call is not the subject)
    metric2, Md2 = sl.make_metric(M, _Pref(mk, "B"), mkind, dim)
    sysm.metric = metric2
    info["metric_dense"] = lambda q_: Md2


def _trig(mk, items):
    """Add angle-addition / parity instances for every SIN/COS argument occurring in the items."""
    if not mk.symbolic:
        return
    terms = []
    for it in items:
        if it.kind == "eq":
            terms += exprs(it.code) + exprs(it.ref)
    for ax in trig_axioms(terms):
        mk.require(ax)


def prob_flow(mk, kind, dim, mkind, remetric=False):
    sysm, info = _mk_sys(mk, kind, dim, mkind)
    q, p = mk.arr("q", dim), mk.arr("p", dim)
    t1, t2 = mk.real("t1"), mk.real("t2")
    if remetric:
        _remetric(mk, sysm, info, dim, mkind, q, p, t1)
    Md = info["metric_dense"](list(q))
    Mi = ml.inv(Md)
    items = []
    tag = f"{kind}/{mkind}" + ("/metric re-assigned" if remetric else "")
    # ---- h1 flow: position unchanged, momentum shifted by -t * dh1/dq
    s = _state(q.copy(), p.copy())
    g = sysm.dh1_dpos(_state(q.copy(), p.copy()))
    sysm.h1_flow(s, t1)
    items.append(Item(f"{tag}: h1_flow leaves the position unchanged", s.pos, q))
    items.append(Item(f"{tag}: h1_flow momentum == mom - t*dh1_dpos", s.mom, p - t1 * g))
    # ---- h2 flow
    s1 = _state(q.copy(), p.copy())
    sysm.h2_flow(s1, t1)
    if kind in ("euclid", "constr"):
        items.append(Item(f"{tag}: h2_flow position == q + t*M^-1 p", s1.pos, q + t1 * (Mi @ p)))
        items.append(Item(f"{tag}: h2_flow leaves the momentum unchanged", s1.mom, p))
    items.append(Item(f"{tag}: h2_flow conserves h2", sysm.h2(s1), sysm.h2(_state(q.copy(), p.copy()))))
    # additivity and inverse
    s12 = s1.copy()
    sysm.h2_flow(s12, t2)
    sa = _state(q.copy(), p.copy())
    sysm.h2_flow(sa, t1 + t2)
    items.append(Item(f"{tag}: flow(t2) o flow(t1) == flow(t1+t2) [pos]", s12.pos, sa.pos))
    items.append(Item(f"{tag}: flow(t2) o flow(t1) == flow(t1+t2) [mom]", s12.mom, sa.mom))
    sb = s1.copy()
    sysm.h2_flow(sb, -t1)
    items.append(Item(f"{tag}: flow(-t) o flow(t) == id [pos]", sb.pos, q))
    items.append(Item(f"{tag}: flow(-t) o flow(t) == id [mom]", sb.mom, p))
    s0 = _state(q.copy(), p.copy())
    sysm.h2_flow(s0, 0.0)
    items.append(Item(f"{tag}: flow(0) == id [pos]", s0.pos, q))
    items.append(Item(f"{tag}: flow(0) == id [mom]", s0.mom, p))
    # ---- Hamilton's equations: d/dt flow(t) = (dh2/dp, -dh2/dq) at flow(t)
    if mk.symbolic:
        D.K = 1
        td = D(SV.lift(t1), [SV(1)])
        sd = _state(np.array([D(x) for x in q], dtype=object), np.array([D(x) for x in p], dtype=object))
        sysm.h2_flow(sd, td)
        dpos, dmom = tangent(sd.pos, 0), tangent(sd.mom, 0)
    else:
        h = 1e-6
        sp_, sm_ = _state(q.copy(), p.copy()), _state(q.copy(), p.copy())
        sysm.h2_flow(sp_, t1 + h)
        sysm.h2_flow(sm_, t1 - h)
        dpos, dmom = (sp_.pos - sm_.pos) / (2 * h), (sp_.mom - sm_.mom) / (2 * h)
    sf = _state(s1.pos.copy(), s1.mom.copy())
    items.append(Item(f"{tag}: d pos/dt == dh2_dmom along the flow", dpos, sysm.dh2_dmom(sf)))
    items.append(Item(f"{tag}: d mom/dt == -dh2_dpos along the flow", dmom, -sysm.dh2_dpos(sf)))
    _trig(mk, items)
    return items


def prob_flow_dmom(mk, kind, dim, mkind, ckind="linear", remetric=False):
    """dh2_flow_dmom (constrained systems) == Jacobian blocks of h2_flow w.r.t. the initial momentum."""
    sysm, info = _mk_sys(mk, kind, dim, mkind, ckind)
    q, p = mk.arr("q", dim), mk.arr("p", dim)
    t = mk.nonzero("t1")  # an integrator never takes a zero time step (Matrix * 0 is documented as unsupported)
    if remetric:
        _remetric(mk, sysm, info, dim, mkind, q, p, t)
    try:
        dpos_dmom, dmom_dmom = sysm.dh2_flow_dmom(_state(q.copy(), p.copy()), t)
    except ValueError as e:
        if "scalar must be non-zero" in str(e):
            # sin(omega t) == 0 or cos(omega t) == 0 exactly: ScaledIdentityMatrix documents a non-zero scalar; in
            # binary64 this needs t == 0 (excluded above) - outside the claim, recorded as skipped
            raise Skip("sin/cos of omega*t exactly zero") from e
        raise
    items = []
    tag = f"{kind}/{mkind}"
    if mk.symbolic:
        D.K = dim
        sd = _state(np.array([D(x) for x in q], dtype=object), dual_array(p, 0))
        sysm.h2_flow(sd, t)
        Jq = np.array([[sd.pos[i].t[j] if isinstance(sd.pos[i], D) else SV(0) for j in range(dim)] for i in range(dim)], dtype=object)
        Jp = np.array([[sd.mom[i].t[j] if isinstance(sd.mom[i], D) else SV(0) for j in range(dim)] for i in range(dim)], dtype=object)
    else:
        h = 1e-6
        Jq, Jp = np.zeros((dim, dim)), np.zeros((dim, dim))
        for j in range(dim):
            e = np.zeros(dim)
            e[j] = h
            a, b = _state(q.copy(), p + e), _state(q.copy(), p - e)
            sysm.h2_flow(a, t)
            sysm.h2_flow(b, t)
            Jq[:, j] = (a.pos - b.pos) / (2 * h)
            Jp[:, j] = (a.mom - b.mom) / (2 * h)
    v = mk.arr("v", dim)
    items.append(Item(f"{tag}: dh2_flow_dmom position block @ v", dpos_dmom @ v, Jq @ v))
    items.append(Item(f"{tag}: dh2_flow_dmom momentum block @ v", dmom_dmom @ v, Jp @ v))
    _trig(mk, items)
    return items


PROBS = {"flow": prob_flow, "flow_dmom": prob_flow_dmom}
MK = ["identity", "diag", "scaled", "dense", "trifact", "eig"]


def run_group(rec, probs):
    rec.encoded(S.System.h1_flow, S.EuclideanMetricSystem.h2_flow, S.GaussianEuclideanMetricSystem.h2_flow,
                S.ConstrainedEuclideanMetricSystem.dh2_flow_dmom, S.GaussianDenseConstrainedEuclideanMetricSystem.dh2_flow_dmom)
    for pname, kw in probs:
        key = "/".join(f"{k}={v}" for k, v in sorted(kw.items()))
        run_problem(rec, PROBS[pname], kw, key_prefix=f"{pname}/{key}:", timeout_ms=60000)


def cases(tier):
    out = []
    for kind in ("euclid", "gauss"):
        for dim in (1, 2):
            for mkind in MK:
                if dim == 1 and mkind == "eig":
                    continue
                if kind == "gauss" and dim == 2 and mkind == "trifact":
                    continue  # (needs an eigendecomposition of L L^T: same registered decomposition as the dense case)
                if kind == "gauss" and dim == 2 and mkind == "dense":
                    mkind = "dense_eig"
                out.append(Case(f"flow/{kind}/{dim}/{mkind}", run_group,
                                {"probs": [("flow", {"kind": kind, "dim": dim, "mkind": mkind})]}, timeout_s=900))
    for kind in ("constr", "gauss_constr"):
        for mkind in ("identity", "scaled", "diag", "dense", "eig"):
            if kind == "gauss_constr" and mkind == "dense":
                mkind = "dense_eig"
            out.append(Case(f"flow/{kind}/2/{mkind}", run_group, {"probs": [("flow", {"kind": kind, "dim": 2, "mkind": mkind})]},
                            timeout_s=900))
            out.append(Case(f"flow_dmom/{kind}/2/{mkind}", run_group,
                            {"probs": [("flow_dmom", {"kind": kind, "dim": 2, "mkind": mkind})]}, timeout_s=900))
            if mkind in ("diag", "scaled") or tier == "thorough" and mkind != "identity":
                out.append(Case(f"flow_dmom_remetric/{kind}/2/{mkind}", run_group,
                                {"probs": [("flow_dmom", {"kind": kind, "dim": 2, "mkind": mkind, "remetric": True})]}, timeout_s=900))
                out.append(Case(f"flow_remetric/{kind}/2/{mkind}", run_group,
                                {"probs": [("flow", {"kind": kind, "dim": 2, "mkind": mkind, "remetric": True})]}, timeout_s=900))
    for kind in ("euclid", "gauss"):
        for mkind in ("diag", "scaled") + (("dense_eig" if kind == "gauss" else "dense",) if tier == "thorough" else ()):
            out.append(Case(f"flow_remetric/{kind}/2/{mkind}", run_group,
                            {"probs": [("flow", {"kind": kind, "dim": 2, "mkind": mkind, "remetric": True})]}, timeout_s=900))
    return out


def replay(cand):
    name = cand["key"].split("/", 1)[0]
    return replay_problem(PROBS[name], cand, rtol=2e-4)
