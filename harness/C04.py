"""C04 - constrained dynamics never leave the constraint manifold / projection solvers honour their contract.

(a) Solver contract for ANY constraint function: each real projection solver runs against an *oracle system* - every
distinct position gets a fresh symbolic residual and Jacobian, the norm is an oracle too (fresh e_k >= 0 per vector,
remembered), tolerances and the signed time step are symbolic.  On every returning path: the norm of the residual at the
*returned* position is below constraint_tol, and the correction has the Lagrange-multiplier form (pos_out - pos_in =
t M^-1 (mom_out - mom_in), mom_out - mom_in in span(J_prev^T)); every other path raises ConvergenceError and nothing else.
(b) project_onto_cotangent_space / sample_momentum of the constrained systems: J M^-1 p_out = 0 (linear and sphere).
(c) End-to-end constrained leapfrog step with a linear constraint and the three real solvers: c(q_out) = 0 and
J M^-1 p_out = 0 (shared with C02).
"""
from __future__ import annotations

import numpy as np
import z3

import symx.stubs as stubs
from symx.core import SV, Ctx, explore, cur
from symx.eqcheck import Item, run_problem, replay_problem
from symx.harness import Case
from harness import integlib as L
from harness import matlib as ml
from harness import syslib as sl

stubs.install()
import mici.matrices as M  # noqa: E402
import mici.systems as S  # noqa: E402
import mici.solvers as SO  # noqa: E402
from mici.states import ChainState  # noqa: E402
from mici.errors import ConvergenceError  # noqa: E402

META = {
    "level": "model_checking",
    "technique": "symbolic execution of the real projection solvers against oracle residual/Jacobian/norm functions (z3 reals, "
                 "path explorer over the solver loop); z3 refutes violations of the return contract per path",
    "explanation": "bounded SMT check: residual, Jacobian and norm sequences arbitrary; tolerances and time step symbolic",
    "bounds": {"quick": {"max_iters": 3, "max_line_search_iters": 2, "constraints": 1, "dim": 2},
               "thorough": {"max_iters": 4, "max_line_search_iters": 3}},
    "outside": "convergence of Newton iterations on curved manifolds (numerical analysis, not a code property); more than one "
               "constraint in the oracle harness; non-identity metric in the oracle harness (identity flow derivative blocks)",
    "stubs": ["system argument of the solvers: oracle object (fresh residual/Jacobian per position, identity metric blocks)",
              "norm argument: oracle (fresh non-negative value per vector, memoised)"],
    "assumptions": ["Gram scalars J M^-1 J_prev^T non-zero (recorded denominators)", "0 < constraint_tol < divergence_tol, position_tol > 0, time step != 0"],
}


class _Inv1:
    def __init__(self, g):
        self.g = g

    @property
    def inv(self):
        return self

    def __matmul__(self, other):
        return other / self.g


class OracleSystem:
    """One constraint, dim 2, identity metric: constr / jacob_constr return fresh symbols per distinct position."""

    def __init__(self):
        self.n = 0
        self.clog = []  # (tuple of position element objects, value) - objects kept alive on purpose
        self.jlog = []

    def _fresh(self, base):
        self.n += 1
        return SV(z3.Real(f"{base}{self.n}"))

    @staticmethod
    def _same(a, b):
        return len(a) == len(b) and all(x is y for x, y in zip(a, b))

    def constr(self, state):
        key = tuple(state.pos)
        for k, v in self.clog:
            if self._same(k, key):
                return v
        v = np.array([self._fresh("r")], dtype=object)
        self.clog.append((key, v))
        return v

    def jacob_constr(self, state):
        key = tuple(state.pos)
        for k, v in self.jlog:
            if self._same(k, key):
                return v
        v = np.array([[self._fresh("j"), self._fresh("j")]], dtype=object)
        self.jlog.append((key, v))
        return v

    def dh2_flow_dmom(self, state, dt):
        return dt * M.IdentityMatrix(2), M.IdentityMatrix(2)

    def jacob_constr_inner_product(self, j1, ipm, j2=None):
        j2 = j1 if j2 is None else j2
        g = (j1 @ (ipm @ j2.T))[0, 0]
        return _Inv1(g)


class NormOracle:
    def __init__(self):
        self.log = []
        self.n = 0

    def __call__(self, vct):
        key = tuple(np.asarray(vct, dtype=object).ravel())
        for k, v in self.log:
            if len(k) == len(key) and all(x is y for x, y in zip(k, key)):
                return v
        self.n += 1
        v = SV(z3.Real(f"e{self.n}"))
        cur().extra.append(v.e >= 0)
        self.log.append((key, v))
        return v


def case_contract(rec, solver, max_iters, ls_iters=None):
    fn_solver = getattr(SO, L.SOLVERS[solver])
    rec.encoded(fn_solver)
    tol_c, tol_p, tol_d, t = z3.Real("ctol"), z3.Real("ptol"), z3.Real("dtol"), z3.Real("t")
    BASE = [tol_c > 0, tol_p > 0, tol_d > tol_c, t != 0]
    kw = {"max_line_search_iters": ls_iters} if solver == "line_search" else {}

    def fn(ctx):
        q = np.array([SV(z3.Real("q0")), SV(z3.Real("q1"))], dtype=object)
        p = np.array([SV(z3.Real("p0")), SV(z3.Real("p1"))], dtype=object)
        st = ChainState(pos=q.copy(), mom=p.copy(), dir=1)
        sp = ChainState(pos=q.copy(), mom=p.copy(), dir=1)
        system = OracleSystem()
        norm = NormOracle()
        ctx.data["norm"] = norm
        try:
            out = fn_solver(st, sp, SV(t), system, constraint_tol=SV(tol_c), position_tol=SV(tol_p), divergence_tol=SV(tol_d),
                            max_iters=max_iters, norm=norm, **kw)
        except ConvergenceError:
            return ("raise", None)
        except Exception as e:  # noqa: BLE001
            return ("foreign", e)
        return ("ret", (q, p, out, system, sp))
    rec.reachable(solver, BASE)
    nret = nraise = 0
    for (kind, data), ctx in explore(fn, BASE, max_paths=5000):
        rec.path(ctx)
        if kind == "raise":
            nraise += 1
            continue
        if kind == "foreign":
            rec.candidate(key=f"{solver}:foreign-exception", label=f"{type(data).__name__} escapes the solver: {data}",
                          payload={"solver": solver, "foreign": type(data).__name__})
            continue
        nret += 1
        q, p, out, system, sp = data
        old = Ctx.cur
        Ctx.cur = ctx
        try:
            e_out = ctx.data["norm"](system.constr(out))
            Jp = system.jacob_constr(sp)[0]
        finally:
            Ctx.cur = old
        ass = BASE + ctx.pc + ctx.side + ctx.extra
        dq = out.pos - q
        dp = out.mom - p
        label = f"{solver} max_iters={max_iters} path#{rec.paths}"

        def payload(m, pcs=[str(c)[:120] for c in ctx.pc]):
            return {"solver": solver, "max_iters": max_iters, "ls_iters": ls_iters, "path": pcs[-12:]}
        rec.obligation(f"{label}: residual norm at the returned position < constraint_tol", ass, z3.Not(e_out.e < tol_c),
                       key=f"{solver}:returns-unconverged", replay=payload)
        from symx.eqcheck import _normalised_negations
        negs, allz = _normalised_negations(rec, [(dq[i].e, (SV(t) * dp[i]).e) for i in range(2)], ass)
        rec.obligation(f"{label}: pos_out - pos_in == t * (mom_out - mom_in) (Lagrange form, identity metric)", ass, z3.Or(*negs),
                       key=f"{solver}:lagrange-form", replay=payload, syntactic=allz)
        negs, allz = _normalised_negations(rec, [((dp[0] * Jp[1] - dp[1] * Jp[0]).e, z3.RealVal(0))], ass)
        rec.obligation(f"{label}: mom_out - mom_in in span(J_prev^T)", ass, negs[0], key=f"{solver}:multiplier-direction",
                       replay=payload, syntactic=allz)
    rec.note(f"{nret} returning paths, {nraise} paths raising ConvergenceError")
    if nret == 0:
        rec.errors.append("no returning path explored (vacuous)")


def prob_projection(mk, kind, mkind, ckind):
    """project_onto_cotangent_space: J M^-1 p_out == 0, idempotent, and leaves cotangent vectors unchanged."""
    dim = 2
    sysm, info = sl.make_system(S, M, mk, kind, dim, mkind=mkind, ckind=ckind, hausdorff=True)
    q, p = mk.arr("q", dim), mk.arr("p", dim)
    Md = info["metric_dense"](list(q))
    Mi = ml.inv(Md)
    J = info["constraint"].J(list(q))
    st = ChainState(pos=q.copy(), mom=p.copy(), dir=1)
    out = sysm.project_onto_cotangent_space(p.copy(), st)
    zero = np.zeros(1) if not mk.symbolic else np.array([SV(0)], dtype=object)
    tag = f"{kind}/{mkind}/{ckind}"
    items = [Item(f"{tag}: J M^-1 project(p) == 0", J @ (Mi @ out), zero)]
    again = sysm.project_onto_cotangent_space(out.copy(), ChainState(pos=q.copy(), mom=out.copy(), dir=1))
    items.append(Item(f"{tag}: projection idempotent", again, out))
    return items


PROBS = {"projection": prob_projection, "constrained": L.prob_constrained}


def run_group(rec, probs):
    rec.encoded(S.ConstrainedEuclideanMetricSystem.project_onto_cotangent_space, L.I.ConstrainedLeapfrogIntegrator._step,
                L.I.ConstrainedLeapfrogIntegrator._step_a, L.I.ConstrainedLeapfrogIntegrator._step_b)
    for pname, kw in probs:
        key = "/".join(f"{k}={v}" for k, v in sorted(kw.items()))
        run_problem(rec, PROBS[pname], kw, key_prefix=f"{pname}/{key}:", timeout_ms=60000, max_paths=300)


GAUSS_STEP = False  # whole constrained steps of the Gaussian-split system (trigonometric h2 flow inside the projection): > 1800 s per case


def cases(tier):
    th = tier == "thorough"
    out = []
    mi = 4 if th else 3
    out.append(Case("contract/quasi_newton", case_contract, {"solver": "quasi_newton", "max_iters": mi}, timeout_s=1800))
    out.append(Case("contract/newton", case_contract, {"solver": "newton", "max_iters": mi}, timeout_s=1800))
    out.append(Case("contract/line_search", case_contract, {"solver": "line_search", "max_iters": mi if th else 3, "ls_iters": 3 if th else 2}, timeout_s=3000))
    for kind in ("constr", "gauss_constr"):
        for mkind in ("identity", "scaled", "diag", "dense"):
            for ckind in ("linear", "sphere"):
                out.append(Case(f"projection/{kind}/{mkind}/{ckind}", run_group,
                                {"probs": [("projection", {"kind": kind, "mkind": mkind, "ckind": ckind})]}, timeout_s=600))
    for solver in ("newton", "quasi_newton", "line_search"):
        for mkind in (("identity", "diag") if th else ("identity",)):
            for n_inner in (1, 2):
                if mkind == "diag" and n_inner == 2:
                    continue  # (> 900 s: two inner h2 flows with a symbolic diagonal metric; identity/inner2 and diag/inner1 cover both axes)
                out.append(Case(f"step/{solver}/{mkind}/inner{n_inner}", run_group,
                                {"probs": [("constrained", {"solver": solver, "mkind": mkind, "n_inner": n_inner, "n": 1})]}, timeout_s=900))
        if th and GAUSS_STEP:
            out.append(Case(f"step/{solver}/gauss/diag", run_group,
                            {"probs": [("constrained", {"solver": solver, "mkind": "diag", "n_inner": 1, "n": 1, "kind": "gauss_constr"})]}, timeout_s=1800))
    return out


def replay(cand):
    p = cand.get("payload") or {}
    if "solver" in p and "kwargs" not in p:
        return _replay_contract(p)
    name = cand["key"].split("/", 1)[0]
    return replay_problem(PROBS[name], cand, rtol=1e-6)


def _replay_contract(p):
    """Concrete search for the contract violation: tabulated random residual/Jacobian sequences per visited position and a
    random (but consistent) norm, real solver, small iteration caps; checks residual-at-returned-position and Lagrange form."""
    rng = np.random.default_rng(2024)
    fn_solver = getattr(SO, L.SOLVERS[p["solver"]])
    kw = {"max_line_search_iters": p.get("ls_iters") or 2} if p["solver"] == "line_search" else {}
    found = None
    for trial in range(20000):
        table = {}

        class Sys:
            def constr(self, state):
                k = tuple(np.round(state.pos, 12))
                if k not in table:
                    # residuals that sometimes fall below the tolerance, sometimes fail to decrease
                    table[k] = (np.array([rng.choice([1e-12, 0.3, 0.7, 1.3]) * rng.choice([-1, 1])]), rng.normal(size=(1, 2)) + np.array([[1.0, 0.5]]))
                return table[k][0]

            def jacob_constr(self, state):
                self.constr(state)
                return table[tuple(np.round(state.pos, 12))][1]

            def dh2_flow_dmom(self, state, dt):
                return dt * M.IdentityMatrix(2), M.IdentityMatrix(2)

            def jacob_constr_inner_product(self, j1, ipm, j2=None):
                j2 = j1 if j2 is None else j2
                return M.DenseSquareMatrix(j1 @ (ipm @ j2.T))
        q, mom = rng.normal(size=2), rng.normal(size=2)
        t = float(rng.choice([-0.5, 0.5]))
        st, sp = ChainState(pos=q.copy(), mom=mom.copy(), dir=1), ChainState(pos=q.copy(), mom=mom.copy(), dir=1)
        system = Sys()
        try:
            # (tolerances are arguments of the solver: the symbolic run treats them as symbols, the replay draws them)
            tol_c = float(rng.choice([1e-9, 1e-13, 1e-6, 0.5]))
            tol_p = float(rng.choice([1e-8, 1e-3, 10.0]))
            out = fn_solver(st, sp, t, system, constraint_tol=tol_c, position_tol=tol_p, divergence_tol=1e10, max_iters=p.get("max_iters", 3), **kw)
        except ConvergenceError:
            continue
        except Exception as e:  # noqa: BLE001
            found = f"foreign exception {type(e).__name__}: {e}"
            break
        res = abs(system.constr(out)[0])
        dq, dp = out.pos - q, out.mom - mom
        if not res < tol_c:
            found = f"returned with |constraint residual| = {res:.3g} at the returned position (constraint_tol {tol_c:g}, position_tol {tol_p:g})"
            break
        if np.max(np.abs(dq - t * dp)) > 1e-9 * (1 + np.max(np.abs(dq))):
            found = f"position correction {dq} != t * momentum correction {t * dp} (trial {trial}): multiplier and position updates inconsistent"
            break
    return {"reproduced": found is not None, "detail": found or "no contract violation in 20000 randomised tabulated-constraint runs of the real solver"}
