"""Shared by C08/C10/C11/C19: generators of mici matrix objects with fully symbolic
parameters built *through* the documented preconditions, plus dense references
computed by explicit small-matrix formulas (generic over SV / float)."""
from __future__ import annotations

import numpy as np

from symx.eqcheck import Skip


def dt(mk):
    return object if mk.symbolic else float


def zeros(mk, shape):
    a = np.zeros(shape, dtype=dt(mk))
    return a


def eye(mk, n):
    a = np.zeros((n, n), dtype=dt(mk))
    for i in range(n):
        a[i, i] = 1
    return a


def det(A):
    n = A.shape[0]
    if n == 1:
        return A[0, 0]
    if n == 2:
        return A[0, 0] * A[1, 1] - A[0, 1] * A[1, 0]
    if n == 3:
        return (A[0, 0] * (A[1, 1] * A[2, 2] - A[1, 2] * A[2, 1])
                - A[0, 1] * (A[1, 0] * A[2, 2] - A[1, 2] * A[2, 0])
                + A[0, 2] * (A[1, 0] * A[2, 1] - A[1, 1] * A[2, 0]))
    raise NotImplementedError


def inv(A):
    n = A.shape[0]
    d = det(A)
    out = np.empty((n, n), dtype=A.dtype)
    if n == 1:
        out[0, 0] = 1 / d
        return out
    if n == 2:
        out[0, 0] = A[1, 1] / d
        out[0, 1] = -A[0, 1] / d
        out[1, 0] = -A[1, 0] / d
        out[1, 1] = A[0, 0] / d
        return out
    if n == 3:
        for i in range(3):
            for j in range(3):
                r = [k for k in range(3) if k != j]
                c = [k for k in range(3) if k != i]
                minor = A[r[0], c[0]] * A[r[1], c[1]] - A[r[0], c[1]] * A[r[1], c[0]]
                out[i, j] = ((-1) ** (i + j)) * minor / d
        return out
    raise NotImplementedError


def absval(x):
    return abs(x)


def lower_tri(mk, name, n, posdiag=True):
    L = zeros(mk, (n, n))
    for i in range(n):
        for j in range(i + 1):
            if i == j:
                L[i, j] = mk.pos(f"{name}_{i}_{j}") if posdiag else mk.nonzero(f"{name}_{i}_{j}")
            else:
                L[i, j] = mk.real(f"{name}_{i}_{j}")
    return L


def spd(mk, name, n):
    """Symmetric positive definite array as L L^T (precondition by construction)."""
    L = lower_tri(mk, name, n)
    return L @ L.T, L


def orth(mk, name, n, reflect=False):
    if n == 1:
        Q = zeros(mk, (1, 1))
        Q[0, 0] = -1 if reflect else 1
        return Q
    c, s = mk.unit_pair(name)
    Q = zeros(mk, (2, 2))
    if reflect:
        Q[0, 0], Q[0, 1], Q[1, 0], Q[1, 1] = c, s, s, -c
    else:
        Q[0, 0], Q[0, 1], Q[1, 0], Q[1, 1] = c, -s, s, c
    return Q


def leaves(n):
    """Names of leaf configurations available at size n (every class, every constructor option)."""
    L = [
        "identity", "scaled_identity", "pos_scaled_identity", "diagonal", "pos_diagonal",
        "tri_lower", "tri_upper", "invtri_lower", "invtri_upper",
        "trifact_pos_lower", "trifact_neg_lower", "trifact_pos_upper", "trifact_neg_upper", "trifact_invfactor",
        "trifact_pd_lower", "trifact_pd_upper",
        "dense_def_pos", "dense_def_neg", "dense_def_neg_factor", "dense_pd", "dense_pd_factor",
        "dense_pd_product", "dense_pd_product_inner",
        "dense_square", "dense_square_lu", "dense_square_lu_transposed", "inv_lu", "inv_lu_transposed",
        "dense_sym", "dense_sym_eig", "orthogonal", "orthogonal_reflect", "scaled_orthogonal",
        "eig_sym", "eig_pd", "softabs_diag",
        "blockdiag_square", "blockdiag_sym", "blockdiag_pd",
        "lowrank_square", "lowrank_square_neg", "lowrank_sym", "lowrank_sym_neg", "lowrank_pd", "lowrank_pd_neg",
        "lowrank_square_cap", "lowrank_pd_inner", "lowrank_square_k2", "lowrank_square_k2_cap",
        "product_invertible",
    ]
    if n == 2:
        L += ["softabs_dense"]
    return L


RECT = ["dense_rect", "block_row", "block_col", "block_row_identity_first", "block_col_identity_first", "product_rect"]


def make_leaf(M, mk, kind, n, tag="a"):
    """Return (matrix object, dense reference array)."""
    p = tag
    if kind == "identity":
        return M.IdentityMatrix(n), eye(mk, n)
    if kind == "scaled_identity":
        s = mk.nonzero(p + "_s")
        return M.ScaledIdentityMatrix(s, n), s * eye(mk, n)
    if kind == "pos_scaled_identity":
        s = mk.pos(p + "_s")
        return M.PositiveScaledIdentityMatrix(s, n), s * eye(mk, n)
    if kind == "diagonal":
        d = mk.arr(p + "_d", n, "nonzero")
        return M.DiagonalMatrix(d), np.diag(d)
    if kind == "pos_diagonal":
        d = mk.arr(p + "_d", n, "pos")
        return M.PositiveDiagonalMatrix(d), np.diag(d)
    if kind in ("tri_lower", "tri_upper", "invtri_lower", "invtri_upper"):
        lower = kind.endswith("lower")
        T = lower_tri(mk, p + "_t", n, posdiag=False)
        T = T if lower else T.T
        # give the constructor a full array: entries outside the triangle must be ignored
        full = T.copy()
        for i in range(n):
            for j in range(n):
                if (j > i and lower) or (j < i and not lower):
                    full[i, j] = mk.real(f"{p}_junk_{i}_{j}")
        if kind.startswith("tri"):
            return M.TriangularMatrix(full, lower=lower), T
        return M.InverseTriangularMatrix(full, lower=lower), inv(T)
    if kind.startswith("trifact"):
        lower = not kind.endswith("upper")
        T = lower_tri(mk, p + "_t", n, posdiag=False)
        T = T if lower else T.T
        if kind == "trifact_invfactor":
            F = M.InverseTriangularMatrix(T, lower=True)
            Ti = inv(T)
            return M.TriangularFactoredDefiniteMatrix(F, sign=-1), -(Ti @ Ti.T)
        if kind.startswith("trifact_pd"):
            return M.TriangularFactoredPositiveDefiniteMatrix(T, factor_is_lower=lower), T @ T.T
        sign = -1 if "neg" in kind else 1
        return M.TriangularFactoredDefiniteMatrix(T, sign=sign, factor_is_lower=lower), sign * (T @ T.T)
    if kind in ("dense_def_pos", "dense_def_neg", "dense_def_neg_factor", "dense_pd", "dense_pd_factor"):
        A, L = spd(mk, p + "_l", n)
        if kind == "dense_def_pos":
            return M.DenseDefiniteMatrix(A, is_posdef=True), A
        if kind == "dense_def_neg":
            return M.DenseDefiniteMatrix(-A, is_posdef=False), -A
        if kind == "dense_def_neg_factor":
            return M.DenseDefiniteMatrix(-A, factor=M.TriangularMatrix(L, lower=True), is_posdef=False), -A
        if kind == "dense_pd":
            return M.DensePositiveDefiniteMatrix(A), A
        return M.DensePositiveDefiniteMatrix(A, factor=M.TriangularMatrix(L, lower=True)), A
    if kind in ("dense_pd_product", "dense_pd_product_inner"):
        # rect (n x n+1) with full row rank by construction: [L | r] with L lower-triangular, non-zero diagonal
        R = zeros(mk, (n, n + 1))
        R[:, :n] = lower_tri(mk, p + "_r", n, posdiag=False)
        for i in range(n):
            R[i, n] = mk.real(f"{p}_rc_{i}")
        if kind == "dense_pd_product":
            return M.DensePositiveDefiniteProductMatrix(R), R @ R.T
        d = mk.arr(p + "_pd", n + 1, "pos")
        return M.DensePositiveDefiniteProductMatrix(R, M.PositiveDiagonalMatrix(d)), R @ np.diag(d) @ R.T
    if kind in ("dense_square", "dense_square_lu", "dense_square_lu_transposed", "inv_lu", "inv_lu_transposed"):
        A = mk.arr(p + "_a", (n, n))
        mk.require(_nz(det(A)))
        if kind == "dense_square":
            return M.DenseSquareMatrix(A), A
        if kind == "dense_square_lu":
            lu = _lu(M, A, mk)
            return M.DenseSquareMatrix(A, lu, False), A
        if kind == "dense_square_lu_transposed":
            # precomputed factorisation of the TRANSPOSE (what M.T of a factorised matrix carries)
            lu = _lu(M, A.T.copy(), mk)
            return M.DenseSquareMatrix(A, lu, True), A
        if kind == "inv_lu":
            lu = _lu(M, A, mk)
            return M.InverseLUFactoredSquareMatrix(A, lu, inv_lu_transposed=False), inv(A)
        lu = _lu(M, A.T.copy(), mk)
        return M.InverseLUFactoredSquareMatrix(A, lu, inv_lu_transposed=True), inv(A)
    if kind in ("dense_sym", "dense_sym_eig", "eig_sym", "eig_pd"):
        Q = orth(mk, p + "_q", n)
        w = mk.arr(p + "_w", n, "pos" if kind == "eig_pd" else "nonzero")
        A = Q @ np.diag(w) @ Q.T
        _reg(mk, A, w, Q)
        if kind == "dense_sym":
            return M.DenseSymmetricMatrix(A), A
        if kind == "dense_sym_eig":
            return M.DenseSymmetricMatrix(A, Q, w), A
        if kind == "eig_sym":
            return M.EigendecomposedSymmetricMatrix(Q, w), A
        return M.EigendecomposedPositiveDefiniteMatrix(M.OrthogonalMatrix(Q), w), A
    if kind in ("orthogonal", "orthogonal_reflect"):
        Q = orth(mk, p + "_q", n, reflect=kind.endswith("reflect"))
        return M.OrthogonalMatrix(Q), Q
    if kind == "scaled_orthogonal":
        Q = orth(mk, p + "_q", n)
        s = mk.nonzero(p + "_s")
        return M.ScaledOrthogonalMatrix(s, Q), s * Q
    if kind in ("softabs_diag", "softabs_dense"):
        a = mk.pos(p + "_alpha")
        if kind == "softabs_diag":
            lam = mk.arr(p + "_lam", n, "nonzero")
            S = np.diag(lam)
            Q = eye(mk, n)
        else:
            Q = orth(mk, p + "_q", n)
            lam = mk.arr(p + "_lam", n, "nonzero")
            S = Q @ np.diag(lam) @ Q.T
            _reg(mk, S, lam, Q)
        obj = M.SoftAbsRegularizedPositiveDefiniteMatrix(S, a)
        if mk.symbolic:
            sa = np.array([x / (x * a).tanh() for x in lam], dtype=object)
        else:
            sa = lam / np.tanh(lam * a)
        # reference: same eigenvectors, softabs of the eigenvalues (function of the symmetric array only)
        return obj, Q @ np.diag(sa) @ Q.T
    if kind.startswith("blockdiag"):
        if kind == "blockdiag_square":
            b1, r1 = make_leaf(M, mk, "tri_lower", 1, p + "b1")
            b2, r2 = make_leaf(M, mk, "dense_square", n, p + "b2")
            cls = M.SquareBlockDiagonalMatrix
        elif kind == "blockdiag_sym":
            b1, r1 = make_leaf(M, mk, "diagonal", 1, p + "b1")
            b2, r2 = make_leaf(M, mk, "eig_sym", n, p + "b2")
            cls = M.SymmetricBlockDiagonalMatrix
        else:
            b1, r1 = make_leaf(M, mk, "pos_scaled_identity", 1, p + "b1")
            b2, r2 = make_leaf(M, mk, "trifact_pd_lower", n, p + "b2")
            cls = M.PositiveDefiniteBlockDiagonalMatrix
        R = zeros(mk, (n + 1, n + 1))
        R[:1, :1] = r1
        R[1:, 1:] = r2
        return cls((b1, b2)), R
    if kind.startswith("lowrank_square_k2"):
        # rank-2 update of a 2x2 matrix (dim_inner = 2: the capacitance matrix is a genuine 2x2, not its own transpose)
        if n != 2:
            raise Skip("rank-2 leaf defined for n = 2")
        # structured factors (fewer symbols keep the normal forms small) that still give a NON-symmetric capacitance matrix
        Lf = zeros(mk, (2, 2))
        Rf = zeros(mk, (2, 2))
        if mk.symbolic:
            from symx.core import SV as _SV
            cst = _SV
            for arr_ in (Lf, Rf):
                for idx in np.ndindex(2, 2):
                    arr_[idx] = _SV(0)
        else:
            cst = float
        Lf[0, 0], Lf[0, 1], Lf[1, 1] = mk.real(p + "_l0"), cst(1), mk.real(p + "_l1")
        Rf[0, 0], Rf[1, 0], Rf[1, 1] = cst(1), mk.real(p + "_r0"), cst(2)
        d = mk.arr(p + "_sq", 2, "nonzero")
        kk = zeros(mk, 2)
        kk[0], kk[1] = mk.nonzero(p + "_in"), cst(1)
        dense = np.diag(d) + Lf @ np.diag(kk) @ Rf
        mk.require(_nz(det(dense)))
        cap = None
        if kind.endswith("_cap"):
            cap = M.DenseSquareMatrix(np.diag(1 / kk) + Rf @ np.diag(1 / d) @ Lf)
        return M.SquareLowRankUpdateMatrix(M.DenseRectangularMatrix(Lf), M.DenseRectangularMatrix(Rf), M.DiagonalMatrix(d),
                                           M.DiagonalMatrix(kk), cap), dense
    if kind.startswith("lowrank"):
        k = 1
        neg = kind.endswith("_neg")
        sign = -1 if neg else 1
        if kind.startswith("lowrank_square"):
            Lf = mk.arr(p + "_lf", (n, k))
            Rf = mk.arr(p + "_rf", (k, n))
            d = mk.arr(p + "_sq", n, "nonzero")
            kk = mk.arr(p + "_in", k, "nonzero")
            dense = np.diag(d) + sign * (Lf @ np.diag(kk) @ Rf)
            mk.require(_nz(det(dense)))
            cap = None
            if kind == "lowrank_square_cap":
                capa = np.diag(1 / kk) + Rf @ np.diag(1 / d) @ Lf  # documented formula (sign=+1 here)
                cap = M.DenseSquareMatrix(capa)
            obj = M.SquareLowRankUpdateMatrix(M.DenseRectangularMatrix(Lf), M.DenseRectangularMatrix(Rf),
                                              M.DiagonalMatrix(d), M.DiagonalMatrix(kk), cap, sign=sign)
            return obj, dense
        F = mk.arr(p + "_f", (n, k))
        if kind.startswith("lowrank_sym"):
            d = mk.arr(p + "_sq", n, "nonzero")
            kk = mk.arr(p + "_in", k, "nonzero")
            dense = np.diag(d) + sign * (F @ np.diag(kk) @ F.T)
            mk.require(_nz(det(dense)))
            obj = M.SymmetricLowRankUpdateMatrix(M.DenseRectangularMatrix(F), M.DiagonalMatrix(d), M.DiagonalMatrix(kk), sign=sign)
            return obj, dense
        d = mk.arr(p + "_sq", n, "pos")
        if kind == "lowrank_pd_inner" or neg:
            kk = mk.arr(p + "_in", k, "pos")
            inner = M.PositiveDiagonalMatrix(kk)
            Kd = np.diag(kk)
        else:
            inner = None
            Kd = eye(mk, k)
        dense = np.diag(d) + sign * (F @ Kd @ F.T)
        if neg:
            # downdate must stay positive definite (documented precondition): leading minors > 0
            for m_ in range(1, n + 1):
                mk.require(det(dense[:m_, :m_]) > 0)
        obj = M.PositiveDefiniteLowRankUpdateMatrix(M.DenseRectangularMatrix(F), M.PositiveDiagonalMatrix(d), inner, sign=sign)
        return obj, dense
    if kind == "product_invertible":
        # products of matrix objects are matrix objects themselves (MatrixProduct hierarchy: own hash / equality / inverse)
        f1, r1 = make_leaf(M, mk, "dense_square", n, p + "f1")
        f2, r2 = make_leaf(M, mk, "diagonal", n, p + "f2")
        return f1 @ f2, r1 @ r2
    if kind == "product_rect":
        f1, r1 = make_leaf(M, mk, "diagonal", n, p + "f1")
        f2, r2 = make_leaf(M, mk, "dense_rect", n, p + "f2")
        return f1 @ f2, r1 @ r2
    if kind == "dense_rect":
        A = mk.arr(p + "_a", (n, n + 1))
        return M.DenseRectangularMatrix(A), A
    if kind == "block_row":
        b1, r1 = make_leaf(M, mk, "dense_rect", n, p + "b1")
        b2, r2 = make_leaf(M, mk, "diagonal", n, p + "b2")
        return M.BlockRowMatrix((b1, b2)), np.concatenate([r1, r2], axis=1)
    if kind == "block_col":
        b1, r1 = make_leaf(M, mk, "dense_rect", n, p + "b1")
        b2, r2 = make_leaf(M, mk, "identity", n + 1, p + "b2")
        return M.BlockColumnMatrix((b1, b2)), np.concatenate([r1, r2], axis=0)
    if kind == "block_row_identity_first":
        # the natural [I A] layout: IdentityMatrix products return their operand itself
        b2, r2 = make_leaf(M, mk, "dense_rect", n, p + "b2")
        return M.BlockRowMatrix((M.IdentityMatrix(n), b2)), np.concatenate([eye(mk, n), r2], axis=1)
    if kind == "block_col_identity_first":
        b2, r2 = make_leaf(M, mk, "dense_rect", n, p + "b2")
        return M.BlockColumnMatrix((M.IdentityMatrix(n + 1), b2)), np.concatenate([eye(mk, n + 1), r2], axis=0)
    raise KeyError(kind)


def _nz(x):
    return x != 0


def _lu(M, A, mk):
    """LU factorisation handed to constructors that accept a precomputed one: produced by
    the same routine mici itself would call (stub for symbolic input, LAPACK for floats)."""
    return M.sla.lu_factor(A, check_finite=False) if mk.symbolic else __import__("scipy.linalg").linalg.lu_factor(A)


def _reg(mk, A, w, Q):
    if mk.symbolic and A.shape[0] == 2:
        import symx.stubs as stubs
        stubs.register_eigh(A, w, Q, mk.assume)
