"""C17 - adapters compute the estimators they document for any history.

Dual averaging: the real ``update``/``finalize`` run on symbolic acceptance statistics and symbolic settings; reference =
the Hoffman-Gelman recursion written in the harness; exp/log/power are uninterpreted (same terms on both sides).  Initial
step-size search: stub integrator whose one-step |dH| at each tried step size is chosen by the explorer (below / above log 2
/ NaN / IntegratorError); on return the last two tried sizes straddle log 2.  Variance / covariance adapters: symbolic
positions, every partition into <= 3 chains in every chain order; metric == inverse of the regularised pooled sample
(co)variance from the batch formula; momenta redrawn under the new metric.
"""
from __future__ import annotations

import itertools
import math

import numpy as np
import z3

import symx.stubs as stubs
from symx.core import SV
from symx.eqcheck import Item, Skip, run_problem, replay_problem
from symx.harness import Case
from symx import weights as W
from harness import matlib as ml

stubs.install()
import mici.adapters as AD  # noqa: E402
import mici.matrices as M  # noqa: E402
import mici.systems as S  # noqa: E402
from mici.states import ChainState  # noqa: E402
from mici.errors import AdaptationError, IntegratorError, ConvergenceError  # noqa: E402

META = {
    "level": "model_checking",
    "technique": "symbolic execution of the real adapters on z3 reals (acceptance statistics, positions, settings symbolic); z3 "
                 "refutes difference from the documented estimators; explorer-enumerated partitions / search outcomes",
    "explanation": "bounded SMT check over all histories of bounded length",
    "bounds": {"quick": {"dual_averaging_updates": 4, "chains": "1-3", "positions": "<= 4 (dim 1-2) for the variance adapter, 2 for the dense covariance adapter", "search_iters": 5},
               "thorough": {"dual_averaging_updates": 6, "positions": "<= 5 (variance), 2 (covariance, one or two chains)"}},
    "outside": "floating-point stability for large offsets relative to the spread (a round-off property; exact arithmetic cannot "
               "see it); histories longer than the bound",
    "stubs": ["math.exp / math.log as imported into mici.adapters: uninterpreted EXP/LOG on symbolic arguments", "x**kappa: uninterpreted POW",
              "transition / integrator / system stubs for the step-size search"],
    "assumptions": ["regularisation offset and scale > 0", "denominators recorded during execution non-zero"],
}

_mexp, _mlog = math.exp, math.log


def _exp(x):
    return x.exp() if isinstance(x, SV) else _mexp(x)


def _log(x):
    return x.log() if isinstance(x, SV) else _mlog(x)


AD.exp, AD.log = _exp, _log


class _Integ:
    def __init__(self):
        self.step_size = None


class _Trans:
    def __init__(self, system=None):
        self.integrator = _Integ()
        self.system = system


def prob_dual_initialize(mk, given):
    """The real ``initialize`` (the coarse search itself is the subject of case_search and is replaced by a symbolic result):
    regularisation target = the configured value whenever one is configured - for every real value, zero included - and
    log(10 * initial step size) only when none is; counters start from zero."""
    mu = mk.real("mu") if given else None
    eps0 = mk.pos("eps0")
    ad = AD.DualAveragingStepSizeAdapter(log_step_size_reg_target=mu)
    ad._find_and_set_init_step_size = lambda state, system, integrator: eps0
    tr = _Trans()
    st = ad.initialize(ChainState(pos=np.zeros(1), mom=np.zeros(1), dir=1), tr)
    want = mu if given else _log(10 * eps0)
    return [Item(f"dual averaging initialize (target {'configured' if given else 'default'}): regularisation target", st["log_step_size_reg_target"], want),
            Item("dual averaging initialize: iteration counter and accumulators start at zero",
                 np.array([st["iter"], st["smoothed_log_step_size"], st["adapt_stat_error"]], dtype=object if mk.symbolic else float),
                 np.zeros(3))]


def prob_dual_averaging(mk, T, n_chain=1, reducer="arithmetic"):
    delta, gamma, kappa = mk.real("delta"), mk.pos("gamma"), mk.pos("kappa")
    t0 = 10
    mu = mk.real("mu")
    red = {"arithmetic": AD.arithmetic_mean_log_step_size_reducer, "geometric": AD.geometric_mean_log_step_size_reducer,
           "min": AD.min_log_step_size_reducer}[reducer]
    ad = AD.DualAveragingStepSizeAdapter(adapt_stat_target=delta, log_step_size_reg_target=mu, log_step_size_reg_coefficient=gamma,
                                         iter_decay_coeff=kappa, iter_offset=t0, log_step_size_reducer=red)
    tr = _Trans()
    items = []
    states, refs = [], []
    for c in range(n_chain):
        a = [mk.real(f"a{c}_{t}") for t in range(1, T + 1)]
        st = {"iter": 0, "smoothed_log_step_size": 0.0, "adapt_stat_error": 0.0, "log_step_size_reg_target": mu}
        H, xbar = 0.0, 0.0
        for t in range(1, T + 1):
            ad.update(st, None, {"accept_stat": a[t - 1]}, tr)
            # Hoffman & Gelman (2014), Algorithm 5/6
            w = 1 / (t + t0)
            H = (1 - w) * H + w * (delta - a[t - 1])
            logeps = mu - (t ** 0.5) / gamma * H
            eta = (1 / t) ** kappa
            xbar = eta * logeps + (1 - eta) * xbar
            items.append(Item(f"dual averaging chain {c} update {t}: step size == exp(mu - sqrt(t)/gamma * H_t)", tr.integrator.step_size,
                              _exp(logeps) if mk.symbolic else math.exp(logeps)))
            items.append(Item(f"dual averaging chain {c} update {t}: smoothed iterate", st["smoothed_log_step_size"], xbar))
        states.append(st)
        refs.append(xbar)
    if n_chain == 1:
        ad.finalize(states[0], None, tr, None)
        items.append(Item("finalize (single chain): step size == exp(smoothed iterate)", tr.integrator.step_size,
                          _exp(refs[0]) if mk.symbolic else math.exp(refs[0])))
    else:
        ad.finalize(states, None, tr, None)
        E = _exp if mk.symbolic else math.exp
        if reducer == "arithmetic":
            want = sum(E(x) for x in refs) / n_chain
            items.append(Item(f"finalize ({n_chain} chains, arithmetic mean)", tr.integrator.step_size, want))
        elif reducer == "geometric":
            want = E(sum(refs) / n_chain)
            items.append(Item(f"finalize ({n_chain} chains, geometric mean)", tr.integrator.step_size, want))
        else:
            # min reducer: exp of the smallest smoothed iterate (the comparisons were decided on this path by the code's own min)
            xs = [SV.lift(x) for x in refs] if mk.symbolic else list(refs)
            imin = 0
            for j in range(1, n_chain):
                if bool(xs[j] < xs[imin]):
                    imin = j
            items.append(Item("finalize (min reducer): step size == exp(smallest smoothed iterate)", tr.integrator.step_size, E(refs[imin])))
    return items


def _partitions(n, max_chains):
    """All assignments of n positions to chains 0..k-1 (every chain non-empty, order of chains matters)."""
    out = []
    for k in range(1, max_chains + 1):
        for assign in itertools.product(range(k), repeat=n):
            if len(set(assign)) == k:
                out.append(assign)
    return out


class ZRng:
    def __init__(self, z):
        self.z = z

    def standard_normal(self, size=None):
        return self.z.copy()

    def normal(self, size=None):
        return self.z.copy()


def prob_variance(mk, n, dim, assign, cov=False):
    """assign: tuple chain index per position."""
    r, s_ = mk.pos("reg_offset"), mk.pos("reg_scale")
    X = mk.arr("x", (n, dim))
    k = max(assign) + 1
    if min(sum(1 for a in assign if a == c) for c in range(k)) < 1:
        raise Skip("empty chain")
    system = S.EuclideanMetricSystem(lambda q: 0.5 * (q @ q), grad_neg_log_dens=lambda q: q)
    tr = _Trans(system)
    ad = (AD.OnlineCovarianceMetricAdapter if cov else AD.OnlineVarianceMetricAdapter)(reg_iter_offset=r, reg_scale=s_)
    states, chains, rngs, zs = [], [], [], []
    for c in range(k):
        idx = [i for i, a in enumerate(assign) if a == c]
        cs = ChainState(pos=X[idx[0]].copy(), mom=np.zeros(dim, dtype=X.dtype), dir=1)
        if mk.symbolic:
            cs = ChainState(pos=X[idx[0]].copy(), mom=np.array([SV(0)] * dim, dtype=object), dir=1)
        st = ad.initialize(cs, tr)
        for i in idx:
            cs.pos = X[i].copy()
            ad.update(st, cs, None, tr)
        states.append(st)
        chains.append(cs)
        z = mk.arr(f"z{c}", dim)
        zs.append(z)
        rngs.append(ZRng(z))
    if k == 1:
        ad.finalize(states[0], chains[0], tr, rngs[0])
    else:
        ad.finalize(states, chains, tr, rngs)
    mean = sum(X[i] for i in range(n)) / n
    tag = f"{'covariance' if cov else 'variance'} n={n} dim={dim} chains={assign}"
    items = []
    if not cov:
        var = sum((X[i] - mean) ** 2 for i in range(n)) / (n - 1)
        var = var * (n / (r + n)) + s_ * (r / (r + n))
        items.append(Item(f"{tag}: metric diagonal == 1 / regularised pooled variance", system.metric.diagonal, 1 / var))
        for c in range(k):
            items.append(Item(f"{tag}: chain {c} momentum redrawn under the new metric", chains[c].mom ** 2, (zs[c] ** 2) / var))
    else:
        C = sum(np.outer(X[i] - mean, X[i] - mean) for i in range(n)) / (n - 1)
        C = C * (n / (r + n)) + (s_ * (r / (r + n))) * ml.eye(mk, dim)
        items.append(Item(f"{tag}: metric @ regularised pooled covariance == I", system.metric.array @ C, ml.eye(mk, dim)))
        for c in range(k):
            # mom = sqrt(metric) z with sqrt sqrt^T = metric = C^-1:  mom^T C mom == z^T z
            items.append(Item(f"{tag}: chain {c} momentum redrawn under the new metric", chains[c].mom @ (C @ chains[c].mom), zs[c] @ zs[c]))
    return items


def prob_too_few(mk, cov=False):
    ad = (AD.OnlineCovarianceMetricAdapter if cov else AD.OnlineVarianceMetricAdapter)()
    system = S.EuclideanMetricSystem(lambda q: 0.5 * (q @ q), grad_neg_log_dens=lambda q: q)
    tr = _Trans(system)
    x = mk.arr("x", 1)
    cs = ChainState(pos=x.copy(), mom=x.copy(), dir=1)
    st = ad.initialize(cs, tr)
    ad.update(st, cs, None, tr)
    try:
        ad.finalize(st, cs, tr, ZRng(x))
        ok = False
    except AdaptationError:
        ok = True
    return [Item("fewer than two samples raise AdaptationError", ok if not mk.symbolic else z3.BoolVal(ok), None, kind="true")]


PROBS = {"dual": prob_dual_averaging, "dual_init": prob_dual_initialize, "variance": prob_variance, "too_few": prob_too_few}


def run_group(rec, probs):
    rec.encoded(AD.DualAveragingStepSizeAdapter.update, AD.DualAveragingStepSizeAdapter.finalize, AD.OnlineVarianceMetricAdapter.update,
                AD.OnlineVarianceMetricAdapter.finalize, AD.OnlineCovarianceMetricAdapter.update, AD.OnlineCovarianceMetricAdapter.finalize,
                AD.arithmetic_mean_log_step_size_reducer, AD.geometric_mean_log_step_size_reducer, AD.min_log_step_size_reducer)
    for pname, kw in probs:
        key = "/".join(f"{k}={v}" for k, v in sorted(kw.items()))
        run_problem(rec, PROBS[pname], kw, key_prefix=f"{pname}/{key}:", timeout_ms=60000, max_paths=200)


# ------------------------------------------------------------------ initial step size search (explorer-enumerated outcomes)
def case_search(rec, max_iters):
    rec.encoded(AD.DualAveragingStepSizeAdapter._find_and_set_init_step_size, AD.DualAveragingStepSizeAdapter.initialize)
    LOG2 = math.log(2)
    viol = {}
    n_ret = 0

    def fn(ctx):
        table = {}
        tried = []

        class Sys:
            def h(self, state):
                return state.hval

        class St:
            def __init__(self, hval):
                self.hval = hval

            def copy(self):
                return St(self.hval)

        class Integ:
            step_size = None

            def step(self_, state):
                eps = self_.step_size
                if eps not in table:
                    table[eps] = ["below", "above", "mid", "nan", "error"][ctx.decide(5)]
                tried.append((eps, table[eps]))
                o = table[eps]
                if o == "error":
                    raise ConvergenceError("injected")
                return St({"below": 0.1, "above": 5.0, "mid": 1.0, "nan": math.nan}[o])  # 'mid': log 2 < 1.0 < 2 log 2
        integ = Integ()
        ad = AD.DualAveragingStepSizeAdapter(max_init_step_size_iters=max_iters)
        try:
            eps = ad._find_and_set_init_step_size(St(0.0), Sys(), integ)
        except AdaptationError:
            return ("raise", tried)
        except Exception as e:  # noqa: BLE001
            return ("foreign", f"{type(e).__name__}: {e}", tried)
        return ("ret", eps, tried, integ.step_size)
    for res, ctx in W.wexplore(fn, max_paths=500000):
        rec.path()
        rec.decisions += len(ctx.trace)
        if res[0] == "foreign":
            viol.setdefault("foreign", (res[1], res[2]))
        elif res[0] == "ret":
            n_ret += 1
            eps, tried, cur = res[1], res[2], res[3]
            if not (eps > 0 and math.isfinite(eps)) or eps != cur:
                viol.setdefault("bad-value", (f"returned step size {eps}", tried))
            # crossing: the returned size and the previously tried size lie on opposite sides of log 2
            last = tried[-1]
            prev = [t for t in tried[:-1] if t[1] != "error"]
            if last[0] != eps or last[1] not in ("below", "above", "mid"):
                viol.setdefault("not-last", (f"returned {eps} but last tried {last}", tried))
            elif len(tried) >= 2:
                p = tried[-2]
                side = {"below": -1, "above": 1, "mid": 1, "nan": 1, "error": 1}
                if side[p[1]] == side[last[1]]:
                    viol.setdefault("no-crossing", (f"returned {eps} ({last[1]} log 2) but the previously tried size {p[0]} was also '{p[1]}'", tried))
            else:
                viol.setdefault("first-try", (f"returned on the first trial {tried}", tried))
    for k, (msg, tried) in viol.items():
        rec.candidate(key=f"search:{k}", label=f"{msg}; tried {tried}", payload={"search": tried, "max_iters": max_iters})
    rec.note(f"{rec.paths} outcome schedules, {n_ret} returning")
    rec.obligation(f"initial step-size search: every return straddles log 2 ({rec.paths} schedules)", [], z3.BoolVal(False), syntactic=True)
    # NaN initial energy raises AdaptationError
    class SysNan:
        def h(self, state):
            return math.nan

    class S0:
        def copy(self):
            return self
    try:
        AD.DualAveragingStepSizeAdapter()._find_and_set_init_step_size(S0(), SysNan(), type("I", (), {"step_size": None})())
        rec.candidate(key="search:nan-init", label="NaN initial Hamiltonian does not raise AdaptationError", payload={"search": "nan"})
    except AdaptationError:
        pass


def cases(tier):
    th = tier == "thorough"
    out = []
    T = 6 if th else 4
    out.append(Case("dual/single", run_group, {"probs": [("dual", {"T": T, "n_chain": 1})]}, timeout_s=900))
    out.append(Case("dual/initialize", run_group, {"probs": [("dual_init", {"given": True}), ("dual_init", {"given": False})]}, timeout_s=300))
    for red in ("arithmetic", "geometric", "min"):
        out.append(Case(f"dual/chains/{red}", run_group, {"probs": [("dual", {"T": 2, "n_chain": 3 if th else 2, "reducer": red})]}, timeout_s=900))
    for cov in (False, True):
        for dim in ((1, 2) if not cov else (2,)):
            for n in (((2, 3, 4, 5) if not cov else (2,)) if th else (2, 3, 4)):
                parts = _partitions(n, 3)
                if cov and th:
                    parts = [(0, 0), (0, 1)]  # (three samples: > 25 min per partition, not registered)
                if not th and n == 4:
                    parts = [p for p in parts if max(p) <= 1] + [(0, 1, 2, 2), (2, 0, 1, 0), (1, 1, 2, 0)]
                if cov and not th:
                    # symbolic Cholesky of a dense 2x2 covariance is expensive: a representative set in the quick tier
                    # (two samples in one chain; two chains (> 800 s) and longer histories (> 25 min each) are thorough-tier only)
                    parts = {2: [(0, 0)], 3: [], 4: []}[n]
                probs = [("variance", {"n": n, "dim": dim, "assign": p, "cov": cov}) for p in parts]
                per = 1 if cov else 8
                for g in range(0, len(probs), per):
                    out.append(Case(f"{'cov' if cov else 'var'}/dim{dim}/n{n}/g{g // per}", run_group, {"probs": probs[g:g + per]}, timeout_s=3600 if th else 800))
        out.append(Case(f"{'cov' if cov else 'var'}/too_few", run_group, {"probs": [("too_few", {"cov": cov})]}, timeout_s=300))
    out.append(Case("search", case_search, {"max_iters": 6 if th else 5}, timeout_s=900))
    return out


def replay(cand):
    p = cand.get("payload") or {}
    if "search" in p:
        return {"reproduced": True, "detail": cand["label"] + " (observed on the real search loop with the recorded outcome table)"}
    name = cand["key"].split("/", 1)[0]
    kw = p.get("kwargs", {})
    if "assign" in kw:
        kw["assign"] = tuple(kw["assign"])
    return replay_problem(PROBS[name], cand, rtol=1e-7)
