"""symx core: path explorer, symbolic real scalar over z3, obligation discharge.

The real mici functions are executed on ``numpy`` ``dtype=object`` arrays whose
entries are :class:`SV` values (z3 ``Real`` terms).  Whenever Python needs a
concrete ``bool`` from a symbolic comparison the explorer forks (re-execution
DFS).  Obligations are z3 queries that must come back ``unsat``.
"""
from __future__ import annotations

import math
import numbers
import time
from fractions import Fraction

import numpy as np
import z3

NUM = (int, float, np.integer, np.floating, Fraction)
DEBUG = bool(__import__('os').environ.get('SYMX_DEBUG'))


class Abort(BaseException):
    """Path infeasible / pruned (BaseException so mici's ``except Exception`` cannot swallow it)."""


class Inconclusive(BaseException):
    """Solver answered unknown where a definite answer was required."""


class Budget(BaseException):
    """Path budget (unwinding assertion) exceeded."""


class Stats:
    def __init__(self):
        self.queries = 0
        self.verdicts = {}
        self.solver_s = 0.0
        self.feas_queries = 0
        self.feas_s = 0.0

    def note(self, verdict, dt):
        self.queries += 1
        self.verdicts[verdict] = self.verdicts.get(verdict, 0) + 1
        self.solver_s += dt


STATS = Stats()


def rv(x):
    """Exact z3 real constant for a Python number."""
    if isinstance(x, (bool, np.bool_)):
        x = int(x)
    if isinstance(x, (int, np.integer)):
        return z3.RealVal(int(x))
    if isinstance(x, Fraction):
        return z3.RealVal(str(x))
    x = float(x)
    if math.isnan(x) or math.isinf(x):
        raise ValueError(f"non-finite constant {x} in real domain")
    return z3.RealVal(str(Fraction(x)))


class Ctx:
    """One execution path: decision trace, path condition, side conditions."""

    cur: "Ctx | None" = None

    def __init__(self, base=(), prefix=(), feas_timeout_ms=4000, use_solver=True):
        self.base = list(base)
        self.prefix = list(prefix)
        self.trace = []  # (choice index, number of options)
        self.pc = []  # z3 bools
        self.side = []  # definitional / well-definedness side conditions (den != 0, sqrt defs...)
        self.side_ids = set()
        self.extra = []  # oracle assumptions (e.g. norms >= 0)
        self.dens = []  # (label, z3 expr) denominators seen
        self.data = {}
        self.prob = None
        self.nfresh = 0
        self.use_solver = use_solver
        self.feas_timeout_ms = feas_timeout_ms
        self._solver = None

    # -- solver for feasibility
    @property
    def solver(self):
        if self._solver is None:
            s = z3.Solver()
            s.set("timeout", self.feas_timeout_ms)
            for c in self.base:
                s.add(c)
            self._solver = s
            self._nside = 0
            self._nextra = 0
        return self._solver

    def _sync(self):
        s = self.solver
        # side / extra only ever grow; add the new ones permanently
        while self._nside < len(self.side):
            s.add(self.side[self._nside])
            self._nside += 1
        while self._nextra < len(self.extra):
            s.add(self.extra[self._nextra])
            self._nextra += 1

    def add_side(self, c):
        i = c.get_id()
        if i not in self.side_ids:
            self.side_ids.add(i)
            self.side.append(c)

    def fresh(self, base="x", sort="real"):
        self.nfresh += 1
        nm = f"{base}!{self.nfresh}"
        return z3.Real(nm) if sort == "real" else (z3.Int(nm) if sort == "int" else z3.Bool(nm))

    def assumptions(self):
        return self.base + self.pc + self.side + self.extra

    # -- decisions
    def choice(self, n, kind="choice"):
        """Nondeterministic choice among n alternatives (no constraint)."""
        i = len(self.trace)
        k = self.prefix[i] if i < len(self.prefix) else 0
        if k >= n:
            raise Abort()
        self.trace.append((k, n))
        return k

    def _feasible(self, cons):
        """sat-check of (cone-of-influence slice of the path's assumptions) and cons.  unsat of the slice
        is unsat of the whole; anything else is treated as feasible (explored conservatively)."""
        allass = self.assumptions()
        # tight slice first: assumptions that only talk about symbols of cons (simple bounds decide most branches)
        syms = symbols_of(cons)
        tight = [a for a in allass if symbols_of(a) and symbols_of(a) <= syms]
        if tight:
            s0 = z3.Solver()
            s0.set("timeout", 1000)
            for a in tight:
                s0.add(a)
            s0.add(cons)
            if s0.check() == z3.unsat:
                return z3.unsat
        ass, dropped = slice_assumptions(allass, cons)
        s = z3.Solver()
        s.set("timeout", self.feas_timeout_ms)
        for a in ass:
            s.add(a)
        s.add(cons)
        return s.check()

    def branch(self, e):
        """Fork on a z3 Bool; only feasible sides are explored."""
        e = z3.simplify(e)
        if z3.is_true(e):
            return True
        if z3.is_false(e):
            return False
        i = len(self.trace)
        opts = [(True, e), (False, z3.Not(e))]
        if i < len(self.prefix) - 1:
            # replay of a decision validated by an earlier run
            k = self.prefix[i]
        else:
            k = self.prefix[i] if i < len(self.prefix) else 0
            first_unsat = False
            while k < 2:
                if not self.use_solver:
                    break
                if k == 1 and first_unsat:
                    break  # pc feasible and pc /\ e infeasible => pc /\ not e feasible
                t = time.time()
                r = self._feasible(opts[k][1])
                dt = time.time() - t
                STATS.feas_queries += 1
                STATS.feas_s += dt
                if dt > 1 and DEBUG:
                    print(f"[slow feasibility {dt:.1f}s -> {r}] {str(opts[k][1])[:300]}", flush=True)
                if r != z3.unsat:  # sat, or unknown (explored conservatively)
                    break
                if k == 0:
                    first_unsat = True
                k += 1
            if k >= 2:
                raise Abort()
        lab, cons = opts[k]
        self.pc.append(cons)
        self.trace.append((k, 2))
        return lab


def explore(fn, base=(), max_paths=100000, use_solver=True, feas_timeout_ms=4000):
    """Yield (result, ctx) for every feasible path of fn(ctx)."""
    prefix = []
    n = 0
    while True:
        ctx = Ctx(base, prefix, use_solver=use_solver, feas_timeout_ms=feas_timeout_ms)
        old = Ctx.cur
        Ctx.cur = ctx
        try:
            res = fn(ctx)
            ok = True
        except Abort:
            ok = False
        finally:
            Ctx.cur = old
        if ok:
            n += 1
            if n > max_paths:
                raise Budget(f"more than {max_paths} paths")
            yield res, ctx
        tr = ctx.trace
        while tr and tr[-1][0] + 1 >= tr[-1][1]:
            tr.pop()
        if not tr:
            return
        prefix = [k for k, _ in tr[:-1]] + [tr[-1][0] + 1]


class straight:
    """Context manager: run code on a single path (comparisons must be decidable
    under ``base``; an undecidable comparison raises Inconclusive)."""

    def __init__(self, base=()):
        self.ctx = Ctx(base)
        self.ctx.straight = True

    def __enter__(self):
        self.old = Ctx.cur
        Ctx.cur = self.ctx
        return self.ctx

    def __exit__(self, *a):
        Ctx.cur = self.old
        return False


def cur():
    if Ctx.cur is None:
        raise RuntimeError("symbolic operation outside an exploration context")
    return Ctx.cur


# --------------------------------------------------------------------------
# symbolic bool / real


class SB:
    """Symbolic boolean; bool() forks through the explorer."""

    __slots__ = ("e",)

    def __init__(self, e):
        self.e = e

    def __bool__(self):
        ctx = cur()
        if getattr(ctx, "straight", False):
            e = z3.simplify(self.e)
            if z3.is_true(e):
                return True
            if z3.is_false(e):
                return False
            if valid(e, ctx.assumptions()):
                ctx.pc.append(e)
                return True
            if valid(z3.Not(e), ctx.assumptions()):
                ctx.pc.append(z3.Not(e))
                return False
            raise Inconclusive(f"undetermined comparison on a straight-line path: {e}")
        return ctx.branch(self.e)

    def __and__(self, o):
        return SB(z3.And(self.e, _sb(o)))

    __rand__ = __and__

    def __or__(self, o):
        return SB(z3.Or(self.e, _sb(o)))

    __ror__ = __or__

    def __invert__(self):
        return SB(z3.Not(self.e))

    def __eq__(self, o):
        if isinstance(o, (SB, bool, np.bool_)):
            return SB(self.e == _sb(o))
        return NotImplemented

    def __ne__(self, o):
        if isinstance(o, (SB, bool, np.bool_)):
            return SB(self.e != _sb(o))
        return NotImplemented

    def __hash__(self):
        return id(self)

    def __repr__(self):
        return f"SB({self.e})"


def _sb(o):
    if isinstance(o, SB):
        return o.e
    return z3.BoolVal(bool(o))


_UF = {}


def uf(name, arity=1):
    k = (name, arity)
    if k not in _UF:
        _UF[k] = z3.Function(name, *([z3.RealSort()] * (arity + 1)))
    return _UF[k]


class SV:
    """Symbolic real value wrapping a z3 Real term."""

    __slots__ = ("e",)

    def __init__(self, e):
        if isinstance(e, SV):
            e = e.e
        elif isinstance(e, NUM) or isinstance(e, (bool, np.bool_)):
            e = rv(e)
        self.e = e

    @staticmethod
    def lift(x):
        return x if isinstance(x, SV) else SV(x)

    @staticmethod
    def _ok(o):
        return isinstance(o, SV) or isinstance(o, NUM)

    def __add__(s, o):
        if not SV._ok(o):
            return NotImplemented
        if not isinstance(o, SV) and o == 0:
            return s
        return SV(s.e + SV.lift(o).e)

    __radd__ = __add__

    def __sub__(s, o):
        if not SV._ok(o):
            return NotImplemented
        if not isinstance(o, SV) and o == 0:
            return s
        return SV(s.e - SV.lift(o).e)

    def __rsub__(s, o):
        if not SV._ok(o):
            return NotImplemented
        return SV(SV.lift(o).e - s.e)

    def __mul__(s, o):
        if not SV._ok(o):
            return NotImplemented
        if not isinstance(o, SV):
            if o == 1:
                return s
            if o == 0:
                return SV(0)
        return SV(s.e * SV.lift(o).e)

    __rmul__ = __mul__

    def _den(s):
        e = s.e
        if not z3.is_rational_value(e):
            e = z3.simplify(e)
        if z3.is_rational_value(e):
            if e.numerator_as_long() == 0:
                raise ZeroDivisionError("division by literal zero in symbolic domain")
            return
        ctx = cur()
        ctx.add_side(e != 0)
        ctx.dens.append(e)

    def __truediv__(s, o):
        if not SV._ok(o):
            return NotImplemented
        o = SV.lift(o)
        o._den()
        return SV(s.e / o.e)

    def __rtruediv__(s, o):
        if not SV._ok(o):
            return NotImplemented
        s._den()
        n = SV.lift(o).e
        q = n / s.e
        if z3.is_rational_value(n) and n.numerator_as_long() != 0 and not z3.is_rational_value(s.e):
            # sign lemma for a constant numerator (valid in the reals; z3 is weak on division by UF terms)
            pos = n.numerator_as_long() > 0
            cur().add_side(z3.And(z3.Implies(s.e > 0, q > 0 if pos else q < 0), z3.Implies(s.e < 0, q < 0 if pos else q > 0)))
        return SV(q)

    def __neg__(s):
        return SV(-s.e)

    def __pos__(s):
        return s

    def __abs__(s):
        e = const_fold(s.e)
        if z3.is_rational_value(e):
            return SV(e) if e.numerator_as_long() >= 0 else SV(-e)
        ctx = Ctx.cur
        if ctx is not None and ctx.use_solver:
            # sign already decided by the path condition / preconditions: no If-term needed
            ass = ctx.assumptions()
            if valid(e >= 0, ass, 1500):
                return s
            if valid(e <= 0, ass, 1500):
                return SV(-e)
            if not getattr(ctx, "straight", False):
                # undecided sign: fork (keeps terms free of If-atoms, which the normaliser cannot look into)
                return s if ctx.branch(e >= 0) else SV(-e)
        return SV(z3.If(e >= 0, e, -e))

    def __pow__(s, p):
        if isinstance(p, SV):
            if z3.is_rational_value(p.e):
                p = Fraction(p.e.numerator_as_long(), p.e.denominator_as_long())
            else:
                return SV(uf("POW", 2)(s.e, p.e))
        if p == 2:
            return s * s
        if p == 1:
            return s
        if p == 0:
            return SV(1)
        if p == 3:
            return s * s * s
        if p == -1:
            return 1 / s
        if p == -2:
            return 1 / (s * s)
        if p == 0.5:
            return s.sqrt()
        if p == -0.5:
            return 1 / s.sqrt()
        return SV(uf("POW", 2)(s.e, rv(p)))

    def __rpow__(s, b):
        return SV(uf("POW", 2)(rv(b), s.e))

    # comparisons (both sides are first brought to a constant when their normal form is one, so that
    # e.g. the residual of an exactly solved linear system compares as the literal 0)
    def _cmp(s, o, op):
        if not SV._ok(o):
            return NotImplemented
        a, b = const_fold(s.e), const_fold(SV.lift(o).e)
        return SB(op(a, b))

    def __lt__(s, o):
        return s._cmp(o, lambda a, b: a < b)

    def __le__(s, o):
        return s._cmp(o, lambda a, b: a <= b)

    def __gt__(s, o):
        return s._cmp(o, lambda a, b: a > b)

    def __ge__(s, o):
        return s._cmp(o, lambda a, b: a >= b)

    def __eq__(s, o):
        return s._cmp(o, lambda a, b: a == b)

    def __ne__(s, o):
        return s._cmp(o, lambda a, b: a != b)

    def __hash__(s):
        return id(s)

    def __bool__(s):
        # truthiness of a float (``x or default``, ``if x:``): x != 0, decided by forking like every other comparison
        return bool(s != 0)

    def __float__(s):
        e = z3.simplify(s.e)
        if z3.is_rational_value(e):
            return e.numerator_as_long() / e.denominator_as_long()
        raise TypeError("symbolic value has no float")

    def __format__(s, f):
        return "<sym>"

    def __repr__(s):
        return f"SV({s.e})"

    def __copy__(s):
        return s

    def __deepcopy__(s, memo):
        return s

    def __reduce__(s):
        return (_sv_from_str, (s.e.sexpr(),))

    def conjugate(s):
        return s

    # numpy object-loop methods
    def sqrt(s):
        if z3.is_rational_value(s.e):
            fr = Fraction(s.e.numerator_as_long(), s.e.denominator_as_long())
            if fr >= 0:
                rn, rd = math.isqrt(fr.numerator), math.isqrt(fr.denominator)
                if rn * rn == fr.numerator and rd * rd == fr.denominator:
                    return SV(Fraction(rn, rd))
        ps = _sqrt_normalised(s.e)
        if ps is not None:
            return ps
        r = uf("SQRT")(s.e)
        cur().add_side(z3.And(r >= 0, r * r == s.e, z3.Implies(s.e > 0, r > 0)))
        return SV(r)

    def log(s):
        return SV(uf("LOG")(s.e))

    def exp(s):
        r = uf("EXP")(s.e)
        cur().add_side(r > 0)
        return SV(r)

    def sin(s):
        z = z3.simplify(s.e)
        if z3.is_rational_value(z) and z.numerator_as_long() == 0:
            return SV(0)
        a, b = uf("SIN")(s.e), uf("COS")(s.e)
        cur().add_side(a * a + b * b == 1)
        return SV(a)

    def cos(s):
        z = z3.simplify(s.e)
        if z3.is_rational_value(z) and z.numerator_as_long() == 0:
            return SV(1)
        a, b = uf("SIN")(s.e), uf("COS")(s.e)
        cur().add_side(a * a + b * b == 1)
        return SV(b)

    def _hyp(s):
        y = s.e
        S, C, T = uf("SINH")(y), uf("COSH")(y), uf("TANH")(y)
        ctx = cur()
        ctx.add_side(z3.And(C >= 1, C * C - S * S == 1, T * C == S, T > -1, T < 1))
        # true facts about sinh/cosh/tanh used as axioms: signs and sinh y cosh y > y (= sinh 2y > 2y)
        ctx.add_side(z3.And(z3.Implies(y > 0, z3.And(S > 0, T > 0, S * C > y)),
                            z3.Implies(y < 0, z3.And(S < 0, T < 0, S * C < y)),
                            z3.Implies(y == 0, z3.And(S == 0, T == 0, C == 1))))
        ch = y.children() if z3.is_app(y) and y.decl().kind() == z3.Z3_OP_MUL else []
        if len(ch) == 2:
            # sign-of-product lemma instance (valid in the reals; spares the solver a non-linear step)
            u, w = ch
            ctx.add_side(z3.And(z3.Implies(z3.And(u > 0, w > 0), y > 0), z3.Implies(z3.And(u < 0, w < 0), y > 0),
                                z3.Implies(z3.And(u > 0, w < 0), y < 0), z3.Implies(z3.And(u < 0, w > 0), y < 0)))
        return S, C, T

    def tanh(s):
        return SV(s._hyp()[2])

    def sinh(s):
        return SV(s._hyp()[0])

    def cosh(s):
        return SV(s._hyp()[1])

    def fmod(s, c):
        """C fmod(x, c) for a positive constant c: r = x - k*c with integer k, |r| < c, sign(r) = sign(x)."""
        cz = SV.lift(c).e
        ctx = cur()
        r = uf("FMOD", 2)(s.e, cz)
        k = z3.Function("FMODK", z3.RealSort(), z3.RealSort(), z3.IntSort())(s.e, cz)
        ctx.add_side(z3.And(s.e == z3.ToReal(k) * cz + r, z3.If(s.e >= 0, z3.And(r >= 0, r < cz), z3.And(r <= 0, r > -cz))))
        return SV(r)

    def __mod__(s, c):
        cz = SV.lift(c).e
        ctx = cur()
        r = uf("PYMOD", 2)(s.e, cz)
        k = z3.Function("PYMODK", z3.RealSort(), z3.RealSort(), z3.IntSort())(s.e, cz)
        ctx.add_side(z3.And(s.e == z3.ToReal(k) * cz + r, r >= 0, r < cz))
        return SV(r)

    def log1p(s):
        return (1 + s).log()

    def expm1(s):
        return s.exp() - 1

    def isnan(s):
        return False

    def isfinite(s):
        return True

    def sign(s):
        return SV(z3.If(s.e > 0, rv(1), z3.If(s.e < 0, rv(-1), rv(0))))


def const_fold(e):
    """If the normal form of e (under the square/definition rules of the current path) is a rational
    constant, return that constant; otherwise e unchanged."""
    if z3.is_rational_value(e) or (z3.is_const(e) and e.decl().kind() == z3.Z3_OP_UNINTERPRETED):
        return e
    ctx = Ctx.cur
    if ctx is None:
        return e
    memo = ctx.data.setdefault("const_fold", {})
    key = (e.get_id(), len(ctx.side), len(ctx.extra))
    if key in memo:
        return memo[key][1]  # (the memo keeps e alive: z3 reuses the ids of collected ASTs)
    out = e
    try:
        from .canon import Canon
        # one normaliser per (path, number of rules): its memo of sub-term normal forms is shared by all const_fold calls
        # (series coefficients are deep DAGs sharing almost all sub-terms from one call to the next)
        shared = ctx.data.get("const_fold_canon")
        if shared is None or shared[0] != key[1:]:
            cn = Canon()
            cn.learn_rules(ctx.side + ctx.extra)
            ctx.data["const_fold_canon"] = shared = (key[1:], cn)
        cn = shared[1]
        r = cn.reduce_rf(cn.rf(e)).simplify_const_den()
        if r.n.is_zero():
            out = z3.RealVal(0)
        elif r.n.is_const() and r.d.is_const():
            out = z3.RealVal(str(r.n.const_value() / r.d.const_value()))
    except (ValueError, ZeroDivisionError, RecursionError):
        pass
    memo[key] = (e, out)
    return out


def _signed_abs(t, ctx):
    ass = ctx.assumptions()
    if valid(t >= 0, ass, 2000):
        return SV(t)
    if valid(t <= 0, ass, 2000):
        return SV(-t)
    return abs(SV(t))


def _sqrt_normalised(e):
    """sqrt(x) through the normal form n/d of x: perfect-square monomials are taken out as |.|
    (sign decided from the path's assumptions when one query settles it); a non-constant
    denominator is rationalised, sqrt(n/d) = sqrt(n d)/|d|, so that every remaining SQRT atom has a
    polynomial argument in normal form (congruent calls share the atom, SQRT^2 rewrites to it)."""
    from .canon import Canon, Poly
    try:
        cn = Canon()
        ctx = cur()
        cn.learn_rules(ctx.side)
        r = cn.reduce_rf(cn.rf(e)).simplify_const_den()
    except (ValueError, ZeroDivisionError, RecursionError):
        return None
    if r.n.is_zero():
        return SV(0)

    def mono_root(p):
        if len(p.t) != 1:
            return None
        (mono, coef), = p.t.items()
        if coef <= 0:
            return None
        rn, rd = math.isqrt(coef.numerator), math.isqrt(coef.denominator)
        if rn * rn != coef.numerator or rd * rd != coef.denominator or any(ex % 2 for _, ex in mono):
            return None
        v = SV(Fraction(rn, rd))
        for a, ex in mono:
            at = _signed_abs(cn.atom_terms[a], ctx)
            for _ in range(ex // 2):
                v = v * at
        return v

    if r.d.is_const():
        m = mono_root(r.n)
        if m is not None:
            return m
        arg = cn.poly_to_z3(r.n)
        if arg.eq(e):
            return None
        x = uf("SQRT")(arg)
        ctx.add_side(z3.And(x >= 0, x * x == arg, z3.Implies(arg > 0, x > 0)))
        return SV(x)
    mn, md = mono_root(r.n), mono_root(r.d)
    if mn is not None and md is not None:
        return mn / md
    dz = cn.poly_to_z3(r.d)
    num = SV(cn.poly_to_z3(r.n * r.d)).sqrt()
    return num / _signed_abs(dz, ctx)


def _sv_from_str(sx):
    # pickling support (C09): variables are reals named in the sexpr
    names = set()
    import re

    for tok in re.findall(r"[A-Za-z_][A-Za-z_0-9!.]*", sx):
        names.add(tok)
    decls = {}
    for n in names:
        if n in ("let", "ite", "and", "or", "not", "to_real"):
            continue
        decls[n] = z3.Real(n)
    for (nm, ar), f in _UF.items():
        decls[nm] = f
    e = z3.parse_smt2_string(f"(assert (= __r {sx}))", decls={**decls, "__r": z3.Real("__r")})[0]
    return SV(e.arg(1))


numbers.Number.register(SV)


def sym(name):
    return SV(z3.Real(name))


def sym_array(name, shape):
    if isinstance(shape, int):
        shape = (shape,)
    a = np.empty(shape, dtype=object)
    for idx in np.ndindex(*shape):
        a[idx] = SV(z3.Real(name + "_" + "_".join(map(str, idx))))
    return a


def const_array(vals):
    a = np.asarray(vals)
    out = np.empty(a.shape, dtype=object)
    for idx in np.ndindex(*a.shape):
        out[idx] = SV(a[idx])
    return out


def exprs(a):
    """Flatten array-like of SV/numbers to list of z3 terms."""
    if isinstance(a, SV) or isinstance(a, NUM):
        return [SV.lift(a).e]
    out = []
    for x in np.asarray(a, dtype=object).ravel():
        out.append(SV.lift(x).e)
    return out


# --------------------------------------------------------------------------
# obligations


def _check(s):
    t = time.time()
    r = s.check()
    return str(r), time.time() - t


def valid(e, assumptions=(), timeout_ms=10000):
    s = z3.Solver()
    s.set("timeout", timeout_ms)
    ne = z3.Not(e)
    if len(assumptions) > 3:
        syms = symbols_of(ne)
        tight = [a for a in assumptions if symbols_of(a) and symbols_of(a) <= syms]
        if tight:
            s0 = z3.Solver()
            s0.set("timeout", 1000)
            for a in tight:
                s0.add(a)
            s0.add(ne)
            if s0.check() == z3.unsat:
                STATS.feas_queries += 1
                return True
        assumptions, _ = slice_assumptions(list(assumptions), ne)
    for a in assumptions:
        s.add(a)
    s.add(ne)
    r, dt = _check(s)
    STATS.feas_queries += 1
    STATS.feas_s += dt
    return r == "unsat"


def satisfiable(assumptions, timeout_ms=20000):
    s = z3.Solver()
    s.set("timeout", timeout_ms)
    for a in assumptions:
        s.add(a)
    r, dt = _check(s)
    STATS.feas_queries += 1
    STATS.feas_s += dt
    return r


class Verdict:
    def __init__(self, label, status, dt, model=None, smt=None, detail=None):
        self.label = label
        self.status = status  # unsat | sat | unknown
        self.dt = dt
        self.model = model
        self.smt = smt
        self.detail = detail


def model_to_dict(m):
    out = {}
    for d in m.decls():
        if d.arity() == 0:
            v = m[d]
            out[d.name()] = str(v)
        else:
            out[d.name()] = str(m[d])
    return out


def model_float(m, e, default=0.0):
    v = m.eval(e, model_completion=True)
    v = z3.simplify(v)
    if z3.is_rational_value(v):
        return v.numerator_as_long() / v.denominator_as_long()
    if z3.is_algebraic_value(v):
        a = v.approx(20)
        return a.numerator_as_long() / a.denominator_as_long()
    if z3.is_true(v):
        return True
    if z3.is_false(v):
        return False
    if z3.is_int_value(v):
        return v.as_long()
    try:
        return float(str(v))
    except Exception:
        return default


_SYMS = {}


def symbols_of(e):
    """Names of the uninterpreted constants occurring in a z3 term (cached per AST id)."""
    i = e.get_id()
    r = _SYMS.get(i)
    if r is not None:
        return r
    out = set()
    seen = set()
    stack = [e]
    while stack:
        t = stack.pop()
        ti = t.get_id()
        if ti in seen:
            continue
        seen.add(ti)
        if z3.is_app(t):
            if t.num_args() == 0:
                if t.decl().kind() == z3.Z3_OP_UNINTERPRETED:
                    out.add(t.decl().name())
            else:
                stack.extend(t.children())
    r = frozenset(out)
    _SYMS[i] = (e, r)[1]
    _SYMS_KEEP.append(e)
    return r


_SYMS_KEEP = []


def slice_assumptions(assumptions, goal):
    """Cone of influence: assumptions transitively sharing a constant symbol with the goal."""
    syms = set(symbols_of(goal))
    rest = [(a, symbols_of(a)) for a in assumptions]
    chosen = []
    changed = True
    while changed:
        changed = False
        keep = []
        for a, sa in rest:
            if not sa or (sa & syms):
                chosen.append(a)
                if not sa <= syms:
                    syms |= sa
                    changed = True
            else:
                keep.append((a, sa))
        rest = keep
    return chosen, len(rest)


def refute(label, assumptions, negated_goal, timeout_ms=60000, want_smt=False, tactics=True):
    """Ask z3 for a counterexample; the query is first posed with the cone-of-influence slice of the
    assumptions (unsat with fewer hypotheses is unsat with all); anything but unsat is re-posed in full."""
    if not isinstance(negated_goal, bool) and z3.is_expr(negated_goal) and len(assumptions) > 3:
        sliced, dropped = slice_assumptions(list(assumptions), negated_goal)
        if dropped:
            v = _refute(label, sliced, negated_goal, min(timeout_ms, 20000), want_smt, tactics=False)
            if v.status == "unsat":
                return v
            STATS.queries -= 1
            STATS.verdicts[v.status] -= 1
    return _refute(label, assumptions, negated_goal, timeout_ms, want_smt, tactics)


def _refute(label, assumptions, negated_goal, timeout_ms=60000, want_smt=False, tactics=True):
    """Ask z3 for a counterexample to the property: assumptions /\\ negated_goal.

    unsat => the obligation is discharged.  Returns Verdict.
    """
    s = z3.Solver()
    s.set("timeout", timeout_ms)
    for a in assumptions:
        s.add(a)
    s.add(negated_goal)
    smt = None
    if want_smt:
        smt = s.to_smt2()
        if len(smt) > 6000:
            smt = smt[:6000] + "\n; ... truncated"
    r, dt = _check(s)
    model = s.model() if r == "sat" else None
    if r == "unknown" and tactics:
        # second opinion: nlsat tactic pipeline
        try:
            t = z3.Then("simplify", "solve-eqs", "purify-arith", "qfnra-nlsat")
            s2 = t.solver()
            s2.set("timeout", timeout_ms)
            for a in assumptions:
                s2.add(a)
            s2.add(negated_goal)
            r2, dt2 = _check(s2)
            dt += dt2
            if r2 != "unknown":
                r = r2
                model = s2.model() if r2 == "sat" else None
        except z3.Z3Exception:
            pass
    if r == "unknown":
        m = _random_point_witness(assumptions, negated_goal)
        if m is not None:
            r, model = "sat", m
    STATS.note(r, dt)
    return Verdict(label, r, dt, model, smt)


def _random_point_witness(assumptions, negated_goal, tries=60):
    """z3 answered 'unknown' (typically 'a large polynomial is non-zero somewhere').  Evaluate the query at random small rational
    points: if all assumptions and the negated goal evaluate to true at one of them, that point is a genuine model (checked by
    z3's own evaluator on the substituted, variable-free formula) - the verdict becomes 'sat' with this witness, which is then
    replayed on the real code like any other.  Only for queries without uninterpreted function applications."""
    import random
    from fractions import Fraction
    fs = list(assumptions) + [negated_goal]
    names = {}
    for f in fs:
        st, seen = [f], set()
        while st:
            t = st.pop()
            i = t.get_id()
            if i in seen:
                continue
            seen.add(i)
            if z3.is_app(t):
                if t.decl().kind() == z3.Z3_OP_UNINTERPRETED:
                    if t.num_args() > 0:
                        return None
                    if z3.is_real(t) or z3.is_int(t):
                        names[t.decl().name()] = t
                    else:
                        return None
                st.extend(t.children())
    if not names:
        return None
    rng = random.Random(12345)
    vs = list(names.values())
    for k in range(tries):
        # (moderate magnitudes: the witness is replayed on the real code in floating point, where e.g. fixed-point iterations
        # converge only for reasonably scaled inputs)
        vals = [Fraction(rng.randint(1, 6) * rng.choice((1, 1, -1)), rng.choice((2, 3, 4))) for _ in vs]
        sub = [(v, z3.RealVal(str(x)) if z3.is_real(v) else z3.IntVal(int(x))) for v, x in zip(vs, vals)]
        try:
            if all(z3.is_true(z3.simplify(z3.substitute(f, *sub))) for f in fs):
                s = z3.Solver()
                s.set("timeout", 5000)
                for v, (_, x) in zip(vs, sub):
                    s.add(v == x)
                if str(s.check()) == "sat":
                    return s.model()
        except z3.Z3Exception:
            return None
    return None


def neq_any(pairs):
    """z3 formula: some pair differs."""
    ds = []
    for a, b in pairs:
        ea, eb = SV.lift(a).e, SV.lift(b).e
        if ea.eq(eb):
            continue
        ds.append(ea != eb)
    if not ds:
        return z3.BoolVal(False)
    return z3.Or(*ds) if len(ds) > 1 else ds[0]


def pairs_of(A, B):
    A = np.asarray(A, dtype=object)
    B = np.asarray(B, dtype=object)
    if A.shape != B.shape:
        raise ValueError(f"shape mismatch {A.shape} vs {B.shape}")
    return list(zip(A.ravel(), B.ravel()))


def trig_axioms(terms):
    """Instances of the angle-addition and parity formulas for the SIN/COS arguments occurring in
    ``terms`` (z3 terms): for arguments x, y, z with z == x + y (normal forms) the addition formulas, for
    z == -x the parity formulas.  True facts about sin/cos, instantiated only where they are needed."""
    from .canon import Canon
    args = {}
    seen = set()
    stack = list(terms)
    while stack:
        t = stack.pop()
        i = t.get_id()
        if i in seen:
            continue
        seen.add(i)
        if z3.is_app(t):
            if t.decl().kind() == z3.Z3_OP_UNINTERPRETED and t.decl().name() in ("SIN", "COS"):
                a = t.children()[0]
                args[a.get_id()] = a
            stack.extend(t.children())
    cn = Canon()
    al = list(args.values())
    keys = [cn.rf(a) for a in al]
    S, C = uf("SIN"), uf("COS")
    out = []
    for i, x in enumerate(al):
        for j, y in enumerate(al):
            if j < i:
                continue
            sk = (keys[i] + keys[j]).simplify_const_den()
            for k, z in enumerate(al):
                d = (keys[k] - sk)
                if d.n.is_zero():
                    out.append(S(z) == S(x) * C(y) + C(x) * S(y))
                    out.append(C(z) == C(x) * C(y) - S(x) * S(y))
        for k, z in enumerate(al):
            if k != i and (keys[k] + keys[i]).n.is_zero():
                out.append(S(z) == -S(x))
                out.append(C(z) == C(x))
    return out
