"""Truncated power series in the step size eps over SV (coefficients eps^0..eps^N).

The real integrators run in series arithmetic; the real fixed-point / Newton solvers converge order
by order when their ``norm`` is the *germ norm* (0.0 iff every kept coefficient is z3-valid zero).
"""
from __future__ import annotations

import numbers
import os

import numpy as np
import z3

from .core import SV, NUM, cur, valid, const_fold


def _D():
    from .dual import D
    return D


def _parts(a):
    """z3 terms making up a coefficient: one for an SV, value + tangents for a dual number."""
    return [a.e] if isinstance(a, SV) else [a.v.e] + [t.e for t in a.t]


class Ser:
    N = 3
    SHIFT_DIV = False
    __slots__ = ("c",)

    def __init__(self, c):
        # coefficients are SV, or dual numbers over SV (derivatives of a series map with respect to its inputs, order by order)
        c = [x if isinstance(x, (SV, _D())) else SV(x) for x in c]
        self.c = (c + [SV(0)] * (Ser.N + 1))[: Ser.N + 1]

    @staticmethod
    def lift(x):
        return x if isinstance(x, Ser) else Ser([x])

    @staticmethod
    def _ok(o):
        return isinstance(o, (Ser, SV, _D())) or isinstance(o, NUM)

    def __add__(s, o):
        if not Ser._ok(o):
            return NotImplemented
        o = Ser.lift(o)
        return Ser([a + b for a, b in zip(s.c, o.c)])

    __radd__ = __add__

    def __neg__(s):
        return Ser([-a for a in s.c])

    def __pos__(s):
        return s

    def __sub__(s, o):
        if not Ser._ok(o):
            return NotImplemented
        o = Ser.lift(o)
        return Ser([a - b for a, b in zip(s.c, o.c)])

    def __rsub__(s, o):
        if not Ser._ok(o):
            return NotImplemented
        return Ser.lift(o) - s

    def __mul__(s, o):
        if not Ser._ok(o):
            return NotImplemented
        if not isinstance(o, Ser):
            return Ser([a * o for a in s.c])
        n = Ser.N
        out = [SV(0)] * (n + 1)
        for i in range(n + 1):
            if _is_zero(s.c[i]):
                continue
            for j in range(n + 1 - i):
                if _is_zero(o.c[j]):
                    continue
                out[i + j] = out[i + j] + s.c[i] * o.c[j]
        return Ser(out)

    __rmul__ = __mul__

    def inv(s):
        n = Ser.N
        b = [1 / s.c[0]]
        for k in range(1, n + 1):
            acc = SV(0)
            for j in range(1, k + 1):
                if _is_zero(s.c[j]):
                    continue
                acc = acc + s.c[j] * b[k - j]
            b.append(-(acc / s.c[0]))
        return Ser(b)

    def __truediv__(s, o):
        if not Ser._ok(o):
            return NotImplemented
        if not isinstance(o, Ser):
            return Ser([a / o for a in s.c])
        k = 0
        if Ser.SHIFT_DIV:
            # (valid-zero test of the divisor's low coefficients: only in problems that switch it on - one z3 query per division)
            k = (o.lead() or (Ser.N + 1,))[0]
        else:
            while k <= Ser.N and _is_zero(o.c[k]):
                k += 1
        if 0 < k <= Ser.N and (s.lead() or (Ser.N + 1,))[0] >= k:
            # exact division by eps^k (both operands are O(eps^k); e.g. the Newton projection of the constrained integrator
            # divides the O(eps^2) constraint residual by the O(eps) scalar J (|t| M^-1) J_prev^T).  The quotient is known
            # through eps^(N-k) only: the top k coefficients become *unknowns* (fresh symbols), so an obligation that depends on
            # them cannot be discharged - it is never silently treated as zero.
            num = Ser(list(s.c[k:]) + [_unknown(s.c[0]) for _ in range(k)])
            den = Ser(list(o.c[k:]) + [_unknown(s.c[0]) for _ in range(k)])
            return num * den.inv()
        return s * o.inv()

    def __rtruediv__(s, o):
        if not Ser._ok(o):
            return NotImplemented
        return Ser.lift(o) * s.inv()

    def __pow__(s, p):
        if p == 2:
            return s * s
        if p == 1:
            return s
        if p == 3:
            return s * s * s
        if p == 0.5:
            return s.sqrt()
        if p == -1:
            return s.inv()
        if p == -0.5:
            return s.sqrt().inv()
        raise NotImplementedError(p)

    def sqrt(s):
        # sqrt(a0 + d) with r0 = sqrt(a0): r_k from (sum r_i eps^i)^2 = s
        n = Ser.N
        r = [s.c[0].sqrt()]
        for k in range(1, n + 1):
            acc = s.c[k]
            for i in range(1, k):
                acc = acc - r[i] * r[k - i]
            r.append(acc / (2 * r[0]))
        return Ser(r)

    def log(s):
        a0 = s.c[0]
        d = Ser([SV(0)] + s.c[1:]) * Ser([1 / a0])
        out = Ser([a0.log()])
        term = Ser([1])
        for k in range(1, Ser.N + 1):
            term = term * d
            out = out + term * Ser([SV(1) / k * (1 if k % 2 else -1)])
        return out

    def _compose(s, f0, derivs):
        """f(s) by Taylor expansion around s.c[0]: derivs = [f, f', f'', f'''] at c0 (SV)."""
        d = Ser([SV(0)] + s.c[1:])
        out = Ser([derivs[0]])
        term = Ser([1])
        fact = 1
        for k in range(1, Ser.N + 1):
            term = term * d
            fact *= k
            out = out + term * Ser([derivs[k] / fact])
        return out

    def sin(s):
        a, b = s.c[0].sin(), s.c[0].cos()
        return s._compose(None, [a, b, -a, -b, a][: Ser.N + 2])

    def cos(s):
        a, b = s.c[0].sin(), s.c[0].cos()
        return s._compose(None, [b, -a, -b, a, b][: Ser.N + 2])

    def lead(s):
        """(index, coefficient) of the first coefficient that is not z3-valid zero, or None."""
        ctx = cur()
        for i, a in enumerate(s.c):
            if not isinstance(a, SV):
                # dual coefficient: zero iff the value and every tangent are
                zero = True
                for e in _parts(a):
                    e = const_fold(e)
                    if z3.is_rational_value(e):
                        if e.numerator_as_long() != 0:
                            zero = False
                            break
                    elif not valid(e == 0, ctx.assumptions(), 4000):
                        zero = False
                        break
                if zero:
                    continue
                return i, a
            e = const_fold(a.e)
            if z3.is_rational_value(e):
                if e.numerator_as_long() == 0:
                    continue
                return i, SV(e)
            if valid(e == 0, ctx.assumptions(), 4000):
                continue
            return i, a
        return None

    def _sign(s):
        l = s.lead()
        if l is None:
            return 0
        i, a = l
        if bool(a > 0):
            return 1
        return -1

    def __lt__(s, o):
        return (s - o)._sign() < 0

    def __le__(s, o):
        return (s - o)._sign() <= 0

    def __gt__(s, o):
        return (s - o)._sign() > 0

    def __ge__(s, o):
        return (s - o)._sign() >= 0

    def __eq__(s, o):
        if not Ser._ok(o):
            return NotImplemented
        return (s - o)._sign() == 0

    def __ne__(s, o):
        if not Ser._ok(o):
            return NotImplemented
        return (s - o)._sign() != 0

    def __hash__(s):
        return id(s)

    def __abs__(s):
        return s if s._sign() >= 0 else -s

    def integrate(s):
        return Ser([SV(0)] + [s.c[k] / (k + 1) for k in range(Ser.N)])

    def sign(s):
        return s._sign()

    def isnan(s):
        return False

    def isfinite(s):
        return True

    def __float__(s):
        raise TypeError("series has no float")

    def __format__(s, f):
        return "<series>"

    def __repr__(s):
        return "Ser(" + ", ".join(str(z3.simplify(_parts(a)[0]))[:60] for a in s.c) + ")"

    def __copy__(s):
        return s

    def __deepcopy__(s, memo):
        return s

    def conjugate(s):
        return s


numbers.Number.register(Ser)


_UNK = [0]


def _unknown(like):
    _UNK[0] += 1
    u = SV(z3.Real(f"ser_unknown_{_UNK[0]}"))
    return u if isinstance(like, SV) else like * 0 + u  # (dual coefficients: unknown value, tangents dropped with it)


def _is_zero(a):
    return all(z3.is_rational_value(e) and e.numerator_as_long() == 0 for e in _parts(a))


def germ_norm(vct):
    """0.0 iff every kept coefficient of every component is (valid) zero, else 1.0: lies between any
    convergence tolerance < 1 and divergence tolerance > 1, so the real solver loops run until the series
    stops changing (one more order of eps per sweep)."""
    for x in np.asarray(vct, dtype=object).ravel():
        if Ser.lift(x).lead() is not None:
            return 1.0
    return 0.0


def series_array(values):
    return np.array([Ser([v]) for v in values], dtype=object)


def coeffs(arr, k):
    return np.array([Ser.lift(x).c[k] for x in np.asarray(arr, dtype=object).ravel()], dtype=object)
