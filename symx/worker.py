"""Worker process: runs one case of one property harness (optionally under a canary
mutation) or one concrete replay, and prints a JSON result on the last stdout line."""
from __future__ import annotations

import argparse
import importlib
import json
import os
import sys
import time
import traceback

MARK = "@@SYMX-RESULT@@ "


def install_source_patch(module_name, old, new, count=1):
    """Compile a mutated copy of a mici module's *current* source at import time."""
    from importlib.machinery import SourceFileLoader

    orig = SourceFileLoader.get_code

    def get_code(self, fullname):
        if fullname == module_name:
            path = self.get_filename(fullname)
            with open(path, encoding="utf-8") as f:
                src = f.read()
            if src.count(old) < 1:
                raise RuntimeError(f"CANARY-PATTERN-MISSING {module_name}: {old!r}")
            src = src.replace(old, new, count)
            return compile(src, path, "exec")
        return orig(self, fullname)

    SourceFileLoader.get_code = get_code


_LINECOV = {}


def _start_linecov():
    """Development aid (SYMX_LINECOV=<dir>): records which lines of mici's source a case executes (sys.monitoring, each
    line reported once), so that code no check ever runs can be listed (bin/linecov_report.py).  Not used by the checks."""
    mon = sys.monitoring
    tool = mon.COVERAGE_ID
    mon.use_tool_id(tool, "symx-linecov")

    def on_line(code, line):
        fn = code.co_filename
        if "/mici/" in fn:
            _LINECOV.setdefault(fn, set()).add(line)
        return mon.DISABLE
    mon.register_callback(tool, mon.events.LINE, on_line)
    mon.set_events(tool, mon.events.LINE)


def _dump_linecov(tag):
    d = os.environ["SYMX_LINECOV"]
    os.makedirs(d, exist_ok=True)
    with open(os.path.join(d, tag.replace("/", "_")[:180] + f".{os.getpid()}.json"), "w") as f:
        json.dump({k: sorted(v) for k, v in _LINECOV.items()}, f)


def main():
    ap = argparse.ArgumentParser()
    ap.add_argument("pid")
    ap.add_argument("tier")
    ap.add_argument("case")
    ap.add_argument("--canary", default=None)
    ap.add_argument("--replay", default=None, help="JSON file with a candidate to replay concretely")
    a = ap.parse_args()
    sys.setrecursionlimit(20000)
    out = {"case": a.case, "ok": False}
    t0 = time.time()
    linecov = bool(os.environ.get("SYMX_LINECOV")) and not a.canary and not a.replay
    if linecov:
        _start_linecov()
    try:
        if a.canary:
            # canary descriptors live in a mici-free module part: harness.<pid>_canaries or harness.<pid>.CANARIES
            spec = importlib.import_module(f"harness.canaries").CANARIES[a.pid][a.canary]
            install_source_patch(spec["module"], spec["old"], spec["new"], spec.get("count", 1))
        mod = importlib.import_module(f"harness.{a.pid}")
        if a.replay:
            with open(a.replay) as f:
                cand = json.load(f)
            res = mod.replay(cand)
            out.update({"ok": True, "replay": res})
        else:
            from symx.harness import Recorder, StopCase
            from symx import core

            cases = {c.name: c for c in mod.cases(a.tier)}
            c = cases[a.case]
            rec = Recorder(c.name, a.tier)
            rec.fail_fast = bool(a.canary)
            try:
                c.func(rec, **c.kwargs)
            except StopCase:
                pass
            except core.Inconclusive as e:
                rec.errors.append(f"inconclusive: {e}")
            except core.Budget as e:
                rec.errors.append(f"budget: {e}")
            out.update(rec.result())
            out["ok"] = True
    except BaseException as e:  # noqa: BLE001
        out["error"] = f"{type(e).__name__}: {e}"
        out["traceback"] = traceback.format_exc()[-4000:]
    out["worker_wall_s"] = round(time.time() - t0, 3)
    if linecov:
        _dump_linecov(f"{a.pid}.{a.case}")
    sys.stdout.flush()
    print(MARK + json.dumps(out, default=str))
    sys.stdout.flush()
    os._exit(0)


if __name__ == "__main__":
    main()
