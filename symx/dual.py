"""Forward-mode dual numbers over SV (or floats): value + K tangent coefficients.

Lives inside numpy object arrays like SV; unknown operand types get NotImplemented
so reflected operators of ndarray / Matrix work.
"""
from __future__ import annotations

import math
import numbers

import numpy as np
import z3

from .core import SV, SB, NUM, uf, cur


class D:
    __slots__ = ("v", "t")
    K = 0  # number of tangent directions (set by the harness before creating duals)

    def __init__(self, v, t=None):
        self.v = v if isinstance(v, SV) else SV(v)
        self.t = list(t) if t is not None else [SV(0)] * D.K

    @staticmethod
    def lift(x):
        return x if isinstance(x, D) else D(x)

    @staticmethod
    def _ok(o):
        return isinstance(o, (D, SV)) or isinstance(o, NUM)

    def __add__(s, o):
        if not D._ok(o):
            return NotImplemented
        o = D.lift(o)
        return D(s.v + o.v, [a + b for a, b in zip(s.t, o.t)])

    __radd__ = __add__

    def __neg__(s):
        return D(-s.v, [-a for a in s.t])

    def __pos__(s):
        return s

    def __sub__(s, o):
        if not D._ok(o):
            return NotImplemented
        o = D.lift(o)
        return D(s.v - o.v, [a - b for a, b in zip(s.t, o.t)])

    def __rsub__(s, o):
        if not D._ok(o):
            return NotImplemented
        return D.lift(o) - s

    def __mul__(s, o):
        if not D._ok(o):
            return NotImplemented
        if not isinstance(o, D):
            return D(s.v * o, [a * o for a in s.t])
        return D(s.v * o.v, [a * o.v + s.v * b for a, b in zip(s.t, o.t)])

    __rmul__ = __mul__

    def __truediv__(s, o):
        if not D._ok(o):
            return NotImplemented
        if not isinstance(o, D):
            return D(s.v / o, [a / o for a in s.t])
        q = s.v / o.v
        return D(q, [(a - q * b) / o.v for a, b in zip(s.t, o.t)])

    def __rtruediv__(s, o):
        if not D._ok(o):
            return NotImplemented
        return D.lift(o) / s

    def __pow__(s, p):
        if isinstance(p, (D, SV)):
            raise NotImplementedError("symbolic exponent")
        if p == 2:
            return s * s
        if p == 1:
            return s
        if p == 3:
            return s * s * s
        if p == 0.5:
            return s.sqrt()
        if p == -1:
            return 1 / s
        if p == -0.5:
            return 1 / s.sqrt()
        raise NotImplementedError(p)

    def __abs__(s):
        c = s.v.e >= 0
        return D(SV(z3.If(c, s.v.e, -s.v.e)), [SV(z3.If(c, a.e, -a.e)) for a in s.t])

    def sqrt(s):
        r = s.v.sqrt()
        return D(r, [a / (2 * r) for a in s.t])

    def log(s):
        return D(s.v.log(), [a / s.v for a in s.t])

    def exp(s):
        r = s.v.exp()
        return D(r, [a * r for a in s.t])

    def sin(s):
        sn, cs = s.v.sin(), s.v.cos()
        return D(sn, [a * cs for a in s.t])

    def cos(s):
        sn, cs = s.v.sin(), s.v.cos()
        return D(cs, [-(a * sn) for a in s.t])

    def fmod(s, c):
        return D(s.v.fmod(c), list(s.t))  # derivative 1 away from the jumps

    def tanh(s):
        r = s.v.tanh()
        return D(r, [a * (1 - r * r) for a in s.t])

    def sinh(s):
        return D(s.v.sinh(), [a * s.v.cosh() for a in s.t])

    def cosh(s):
        return D(s.v.cosh(), [a * s.v.sinh() for a in s.t])

    def __lt__(s, o):
        return s.v < D.lift(o).v

    def __le__(s, o):
        return s.v <= D.lift(o).v

    def __gt__(s, o):
        return s.v > D.lift(o).v

    def __ge__(s, o):
        return s.v >= D.lift(o).v

    def __eq__(s, o):
        if not D._ok(o):
            return NotImplemented
        return s.v == D.lift(o).v

    def __ne__(s, o):
        if not D._ok(o):
            return NotImplemented
        return s.v != D.lift(o).v

    def __hash__(s):
        return id(s)

    def __float__(s):
        raise TypeError("dual number has no float")

    def __format__(s, f):
        return "<dual>"

    def __repr__(s):
        return f"D({s.v}, {s.t})"

    def __copy__(s):
        return s

    def __deepcopy__(s, memo):
        return s

    def conjugate(s):
        return s

    def isnan(s):
        return False

    def isfinite(s):
        return True

    def sign(s):
        return D(s.v.sign())


numbers.Number.register(D)


def dual_array(values, slot0, K=None):
    """Array of duals: entry i carries unit tangent in slot slot0 + i (values: array of SV)."""
    K = D.K if K is None else K
    vals = np.asarray(values, dtype=object)
    out = np.empty(vals.shape, dtype=object)
    for n, idx in enumerate(np.ndindex(*vals.shape)):
        t = [SV(0)] * K
        t[slot0 + n] = SV(1)
        out[idx] = D(vals[idx], t)
    return out


def value(a):
    """Strip tangents: array of SV."""
    if isinstance(a, D):
        return a.v
    arr = np.asarray(a, dtype=object)
    out = np.empty(arr.shape, dtype=object)
    for idx in np.ndindex(*arr.shape):
        x = arr[idx]
        out[idx] = x.v if isinstance(x, D) else x
    return out


def tangent(a, k):
    """k-th tangent coefficient of every entry (array of SV)."""
    if isinstance(a, D):
        return a.t[k]
    arr = np.asarray(a, dtype=object)
    out = np.empty(arr.shape, dtype=object)
    for idx in np.ndindex(*arr.shape):
        x = arr[idx]
        out[idx] = x.t[k] if isinstance(x, D) else SV(0)
    return out
