"""Value factories: the same harness code builds symbolic inputs (z3 reals) for the
solver run and concrete floats (from a model) for the replay on the real code."""
from __future__ import annotations

import math

import numpy as np
import z3

from .core import SV, model_float


class SymMk:
    symbolic = True

    def __init__(self):
        self.names = {}
        self.assume = []

    def real(self, name):
        v = z3.Real(name)
        self.names[name] = v
        return SV(v)

    def pos(self, name):
        s = self.real(name)
        self.assume.append(s.e > 0)
        return s

    def nonzero(self, name):
        s = self.real(name)
        self.assume.append(s.e != 0)
        return s

    def unit_pair(self, name):
        """(c, s) with c^2 + s^2 = 1."""
        c, s = self.real(name + "_c"), self.real(name + "_s")
        self.assume.append(c.e * c.e + s.e * s.e == 1)
        return c, s

    def arr(self, name, shape, kind="real"):
        if isinstance(shape, int):
            shape = (shape,)
        a = np.empty(shape, dtype=object)
        f = getattr(self, kind)
        for idx in np.ndindex(*shape):
            a[idx] = f(name + "_" + "_".join(map(str, idx)))
        return a

    def array(self, rows):
        """Build an ndarray from nested lists of scalars."""
        a = np.empty(np.shape(rows), dtype=object)
        src = np.array(rows, dtype=object)
        for idx in np.ndindex(*a.shape):
            a[idx] = SV.lift(src[idx])
        return a

    def const(self, x):
        return x

    def values(self, model):
        out = {n: model_float(model, v) for n, v in self.names.items()}
        ufs = getattr(self, "ufs", None)
        if ufs:
            tabs = {}
            for name, f in ufs.items():
                fi = model[f]
                if fi is None:
                    tabs[name] = {"entries": [], "else": 0.0}
                    continue
                entries = []
                try:
                    for i in range(fi.num_entries()):
                        e = fi.entry(i)
                        entries.append(([_num(e.arg_value(j)) for j in range(e.num_args())], _num(e.value())))
                    els = _num(fi.else_value())
                except Exception:  # noqa: BLE001
                    els = 0.0
                tabs[name] = {"entries": entries, "else": els}
            out["__uf__"] = tabs
        return out

    def bounds(self, lim=8):
        return [z3.And(v >= -lim, v <= lim) for v in self.names.values()]

    def sqrt(self, x):
        return SV.lift(x).sqrt()


class ConcMk:
    symbolic = False

    def __init__(self, values):
        self.vals = values
        self.assume = []

    def real(self, name):
        return float(self.vals.get(name, 0.0))

    pos = real
    nonzero = real

    def unit_pair(self, name):
        c, s = self.real(name + "_c"), self.real(name + "_s")
        r = math.hypot(c, s)
        if r == 0:
            return 1.0, 0.0
        return c / r, s / r

    def arr(self, name, shape, kind="real"):
        if isinstance(shape, int):
            shape = (shape,)
        a = np.empty(shape, dtype=float)
        for idx in np.ndindex(*shape):
            a[idx] = self.real(name + "_" + "_".join(map(str, idx)))
        return a

    def array(self, rows):
        return np.array(rows, dtype=float)

    def const(self, x):
        return x

    def sqrt(self, x):
        return math.sqrt(x)


def fnum(x):
    """float of a concrete scalar-like (float, 0-d array, LogRepFloat...)."""
    return float(np.asarray(x, dtype=float))


def differs(a, b, rtol=1e-6, atol=1e-8):
    """Concrete comparison used by replays: True if arrays differ beyond tolerance (NaN counts as differing)."""
    a = np.asarray(a, dtype=float)
    b = np.asarray(b, dtype=float)
    if a.shape != b.shape:
        try:
            a, b = np.broadcast_arrays(a, b)
        except ValueError:
            return True, f"shape {a.shape} vs {b.shape}"
    if not (np.all(np.isfinite(a)) and np.all(np.isfinite(b))):
        return True, f"non-finite: code={a.tolist()} ref={b.tolist()}"
    scale = max(1.0, float(np.max(np.abs(a))) if a.size else 1.0, float(np.max(np.abs(b))) if b.size else 1.0)
    err = float(np.max(np.abs(a - b))) if a.size else 0.0
    if err > atol + rtol * scale:
        return True, f"max abs diff {err:.3e} (scale {scale:.3g}): code={np.round(a, 6).tolist()} ref={np.round(b, 6).tolist()}"
    return False, f"max abs diff {err:.3e}"


def _num(v):
    v = z3.simplify(v)
    if z3.is_rational_value(v):
        return v.numerator_as_long() / v.denominator_as_long()
    if z3.is_algebraic_value(v):
        a = v.approx(20)
        return a.numerator_as_long() / a.denominator_as_long()
    try:
        return float(str(v))
    except ValueError:
        return 0.0
