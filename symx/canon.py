"""Front-end normalisation of z3 real terms to rational functions over atoms.

z3's nonlinear real arithmetic answers ``unknown`` on many plain identities between
rational functions (e.g. a triangular solve against an adjugate inverse).  The
obligation ``code != ref`` is therefore first brought to the form ``N != 0`` with N
the expanded numerator polynomial of ``code - ref`` over *atoms* (variables,
uninterpreted-function applications with canonicalised arguments, If-terms), reduced
by the square relations recorded as side conditions (SQRT(x)^2 = x, c^2 + s^2 = 1).
The solver then decides ``assumptions /\\ N != 0``: a syntactically zero N is the
trivial query ``0 != 0``; otherwise z3 either finds a model (candidate counterexample,
replayed on the real code) or proves N vanishes under the side conditions.

The normaliser is cross-checked on every obligation by evaluating the original z3
term and the normal form at random rational points (see ``selfcheck``).
"""
from __future__ import annotations

import random
from fractions import Fraction

import z3

ZERO = Fraction(0)
ONE = Fraction(1)


class Poly:
    __slots__ = ("t",)

    def __init__(self, t=None):
        self.t = t if t is not None else {}

    @staticmethod
    def const(c):
        c = Fraction(c)
        return Poly({(): c} if c != 0 else {})

    @staticmethod
    def var(a):
        return Poly({((a, 1),): ONE})

    def is_zero(self):
        return not self.t

    def is_const(self):
        return all(k == () for k in self.t)

    def const_value(self):
        return self.t.get((), ZERO)

    def __add__(s, o):
        if len(s.t) < len(o.t):
            s, o = o, s
        t = dict(s.t)
        for k, v in o.t.items():
            nv = t.get(k, ZERO) + v
            if nv == 0:
                t.pop(k, None)
            else:
                t[k] = nv
        return Poly(t)

    def __neg__(s):
        return Poly({k: -v for k, v in s.t.items()})

    def __sub__(s, o):
        return s + (-o)

    def scale(s, c):
        if c == 0:
            return Poly()
        return Poly({k: v * c for k, v in s.t.items()})

    def __mul__(s, o):
        if not s.t or not o.t:
            return Poly()
        if len(s.t) == 1 and () in s.t:
            return o.scale(s.t[()])
        if len(o.t) == 1 and () in o.t:
            return s.scale(o.t[()])
        t = {}
        for k1, v1 in s.t.items():
            for k2, v2 in o.t.items():
                k = _mono_mul(k1, k2)
                nv = t.get(k, ZERO) + v1 * v2
                if nv == 0:
                    t.pop(k, None)
                else:
                    t[k] = nv
        return Poly(t)

    def key(s):
        return tuple(sorted(s.t.items()))

    def nterms(s):
        return len(s.t)

    def atoms(s):
        out = set()
        for k in s.t:
            for a, _ in k:
                out.add(a)
        return out


def _mono_mul(k1, k2):
    if not k1:
        return k2
    if not k2:
        return k1
    d = dict(k1)
    for a, e in k2:
        d[a] = d.get(a, 0) + e
    return tuple(sorted(d.items()))


def _monic(d):
    """(monic representative, leading coefficient) of a non-constant polynomial: the coefficient of its largest monomial (in the
    fixed tuple order) is made 1, so that c * d and d are recognised as the same denominator factor."""
    lead = d.t[max(d.t)]
    return (d if lead == 1 else d.scale(1 / lead)), lead


class RF:
    """Rational function num / prod(factor_i ^ e_i).  The denominator is kept as a multiset of (monic) polynomial factors so that
    sums over a common denominator do not square it (a/m + b/m^2 = (a m + b)/m^2): without this the normal forms of iterated
    fixed-point maps over a position-dependent metric grow exponentially.  ``d`` expands the product on demand."""

    __slots__ = ("n", "f", "_d")

    def __init__(self, n, d=None, f=None):
        self._d = None
        if f is not None:
            self.n, self.f = n, f
            return
        if d is None:
            self.n, self.f = n, {}
        elif d.is_const():
            c = d.const_value()
            if c == 0:
                raise ZeroDivisionError("zero denominator")
            self.n, self.f = (n if c == 1 else n.scale(1 / c)), {}
        else:
            m, lead = _monic(d)
            self.n, self.f = (n if lead == 1 else n.scale(1 / lead)), {m.key(): (m, 1)}

    @property
    def d(s):
        if s._d is None:
            s._d = _expand(s.f)
        return s._d

    @staticmethod
    def _lcm(fa, fb):
        """(lcm, cofactor of fa, cofactor of fb) as factor dicts."""
        l, ca, cb = dict(fa), {}, {}
        for k, (p, e) in fb.items():
            ea = fa.get(k, (p, 0))[1]
            if e > ea:
                l[k] = (p, e)
                ca[k] = (p, e - ea)
            elif ea > e:
                cb[k] = (p, ea - e)
        for k, (p, e) in fa.items():
            if k not in fb:
                cb[k] = (p, e)
        return l, ca, cb

    def __add__(s, o):
        if s.f.keys() == o.f.keys() and all(s.f[k][1] == o.f[k][1] for k in s.f):
            return RF(s.n + o.n, f=s.f)
        l, ca, cb = RF._lcm(s.f, o.f)
        return RF(s.n * _expand(ca) + o.n * _expand(cb), f=l)

    def __sub__(s, o):
        return s + (-o)

    def __neg__(s):
        return RF(-s.n, f=s.f)

    def __mul__(s, o):
        if not o.f:
            return RF(s.n * o.n, f=s.f)
        if not s.f:
            return RF(s.n * o.n, f=o.f)
        f = dict(s.f)
        for k, (p, e) in o.f.items():
            f[k] = (p, e + f[k][1]) if k in f else (p, e)
        return RF(s.n * o.n, f=f)

    def __truediv__(s, o):
        if o.n.is_zero():
            raise ZeroDivisionError("division by a syntactically zero term")
        # s.n / s.f * o.f / o.n: common factors of s.f and o.f cancel
        den, num = dict(s.f), {}
        for k, (p, e) in o.f.items():
            ed = den.get(k, (p, 0))[1]
            if ed > e:
                den[k] = (p, ed - e)
            else:
                den.pop(k, None)
                if e > ed:
                    num[k] = (p, e - ed)
        n = s.n * _expand(num)
        if o.n.is_const():
            return RF(n.scale(1 / o.n.const_value()), f=den)
        m, lead = _monic(o.n)
        k = m.key()
        den[k] = (m, den[k][1] + 1) if k in den else (m, 1)
        return RF(n if lead == 1 else n.scale(1 / lead), f=den)

    def key(s):
        return (s.n.key(), s.d.key())

    def simplify_const_den(s):
        return s

    def map_polys(s, fn):
        """Apply a value-preserving rewriting of polynomials (the normaliser's rules) to numerator and denominator factors."""
        out = RF(fn(s.n))
        for p, e in s.f.values():
            q = RF(Poly.const(1), fn(p))
            for _ in range(e):
                out = out * q
        return out


def _expand(f):
    r = Poly.const(1)
    for p, e in f.values():
        for _ in range(e):
            r = r * p
    return r


class Canon:
    def __init__(self):
        self.memo = {}
        self.atom_ids = {}  # canonical key -> atom id
        self.atom_terms = []  # atom id -> z3 term
        self.rules = {}  # atom id -> Poly for atom^2
        self.uf_index = {}
        self.defs = {}  # atom id -> Poly (atom == polynomial in other atoms), from SIN/COS definitional equalities

    def atom(self, key, term):
        if key not in self.atom_ids:
            self.atom_ids[key] = len(self.atom_terms)
            self.atom_terms.append(term)
        return self.atom_ids[key]

    def _uf_atom(self, name, args, e):
        """Atom of a UF application; applications whose arguments are equal as rational functions
        (cross-multiplied difference reduces to the zero polynomial) share the atom (congruence)."""
        key = ("uf", name, tuple(a.key() for a in args))
        if key in self.atom_ids:
            return self.atom_ids[key]
        for (nm, ars), aid in self.uf_index.get((name, len(args)), []):
            if all(self.reduce((x - y).n).is_zero() for x, y in zip(args, ars)):
                self.atom_ids[key] = aid
                return aid
        aid = self.atom(key, e)
        self.uf_index.setdefault((name, len(args)), []).append(((name, args), aid))
        return aid

    def rf(self, e):
        i = e.get_id()
        hit = self.memo.get(i)
        if hit is None:
            r = self._rf(e)
            self.memo[i] = (e, r)  # keep e alive: z3 reuses the ids of collected ASTs
            return r
        return hit[1]

    def _rf(self, e):
        if z3.is_rational_value(e) or z3.is_int_value(e):
            return RF(Poly.const(Fraction(e.numerator_as_long(), e.denominator_as_long()) if z3.is_rational_value(e) else e.as_long()))
        if z3.is_algebraic_value(e):
            a = self.atom(("alg", str(e)), e)
            return RF(Poly.var(a))
        if not z3.is_app(e):
            raise ValueError(f"cannot normalise {e}")
        d = e.decl()
        k = d.kind()
        ch = e.children()
        if k == z3.Z3_OP_ADD:
            r = self.rf(ch[0])
            for c in ch[1:]:
                r = r + self.rf(c)
            return r.simplify_const_den()
        if k == z3.Z3_OP_SUB:
            r = self.rf(ch[0])
            for c in ch[1:]:
                r = r - self.rf(c)
            return r.simplify_const_den()
        if k == z3.Z3_OP_UMINUS:
            return -self.rf(ch[0])
        if k == z3.Z3_OP_MUL:
            r = self.rf(ch[0])
            for c in ch[1:]:
                r = r * self.rf(c)
            return self.reduce_rf(r).simplify_const_den()
        if k == z3.Z3_OP_DIV:
            return self.reduce_rf(self.rf(ch[0]) / self.rf(ch[1])).simplify_const_den()
        if k == z3.Z3_OP_POWER:
            if z3.is_rational_value(ch[1]) and ch[1].denominator_as_long() == 1:
                n = ch[1].numerator_as_long()
                b = self.rf(ch[0])
                r = RF(Poly.const(1))
                for _ in range(abs(n)):
                    r = r * b
                return r if n >= 0 else RF(Poly.const(1)) / r
        if k == z3.Z3_OP_TO_REAL:
            return self.rf(ch[0])
        if k == z3.Z3_OP_ITE:
            ck = self._bool_key(ch[0])
            a, b = self.rf(ch[1]), self.rf(ch[2])
            if a.key() == b.key():
                return a
            at = self.atom(("ite", ck, a.key(), b.key()), e)
            if at not in self.rules and a.key() == (-b).key():
                a1 = a.simplify_const_den()
                if a1.d.is_const():
                    self.rules[at] = a1.n * a1.n  # |x|^2 = x^2
            return RF(Poly.var(at))
        if k == z3.Z3_OP_UNINTERPRETED:
            if not ch:
                at = self.atom(("var", d.name()), e)
                return RF(Poly.var(at))
            args = [self.reduce_rf(self.rf(c)).simplify_const_den() for c in ch]
            name = d.name()
            if name == "TANH":
                # tanh = sinh / cosh, cosh^2 = 1 + sinh^2: hyperbolic identities become polynomial identities
                from .core import uf
                return self.rf(uf("SINH")(ch[0])) / self.rf(uf("COSH")(ch[0]))
            at = self._uf_atom(name, args, e)
            if name == "COSH" and at not in self.rules:
                from .core import uf
                sh = self.rf(uf("SINH")(ch[0]))
                sa = _single_atom(sh)
                if sa is not None:
                    self.rules[at] = Poly.const(1) + Poly.var(sa) * Poly.var(sa)
            if name == "SQRT" and at not in self.rules:
                a0 = args[0].simplify_const_den()
                if a0.d.is_const():
                    self.rules[at] = a0.n
            return RF(Poly.var(at))
        raise ValueError(f"cannot normalise operator {d.name()} in {e.sexpr()[:80]}")

    def _bool_key(self, c):
        if z3.is_app(c):
            k = c.decl().kind()
            ch = c.children()
            if k in (z3.Z3_OP_LE, z3.Z3_OP_LT, z3.Z3_OP_GE, z3.Z3_OP_GT, z3.Z3_OP_EQ, z3.Z3_OP_DISTINCT) and len(ch) == 2 \
                    and z3.is_arith(ch[0]):
                try:
                    return (c.decl().name(), self.rf(ch[0]).key(), self.rf(ch[1]).key())
                except ValueError:
                    pass
            if k in (z3.Z3_OP_AND, z3.Z3_OP_OR, z3.Z3_OP_NOT):
                return (c.decl().name(),) + tuple(self._bool_key(x) for x in ch)
        return ("bool", c.get_id())

    # -- reduction by square relations
    def add_unit_rule(self, c_term, s_term):
        """c^2 -> 1 - s^2"""
        c = self.rf(c_term)
        s = self.rf(s_term)
        ca = _single_atom(c)
        sa = _single_atom(s)
        if ca is not None and sa is not None:
            self.rules[ca] = Poly.const(1) - Poly.var(sa) * Poly.var(sa)

    def learn_rules(self, side):
        """Pick up square relations from side conditions: x*x == rhs (sqrt definitions,
        rotation c*c + s*s == 1)."""
        for rnd in range(2):
            self._learn_pass(side)
            # terms normalised before all rules were known must be re-normalised
            self.memo.clear()

    def _learn_pass(self, side):
        for c in side:
            for eq in _conjuncts(c):
                if not (z3.is_app(eq) and eq.decl().kind() == z3.Z3_OP_EQ):
                    continue
                lhs, rhs = eq.children()
                if not z3.is_arith(lhs):
                    continue
                try:
                    L, R = self.rf(lhs), self.rf(rhs)
                except (ValueError, ZeroDivisionError):
                    continue
                self._rule_from(L, R)

    def _def_from(self, L, R):
        for X, Y in ((L, R), (R, L)):
            a = _single_atom(X)
            if a is None or a in self.defs:
                continue
            t = self.atom_terms[a]
            if not (z3.is_app(t) and t.decl().kind() == z3.Z3_OP_UNINTERPRETED and t.decl().name() in ("SIN", "COS")):
                continue
            Y = Y.simplify_const_den()
            if not Y.d.is_const() or a in Y.n.atoms():
                continue
            # avoid cyclic definitions
            if any(b in self.defs and a in self.defs[b].atoms() for b in Y.n.atoms()):
                continue
            self.defs[a] = Y.n
            return True
        return False

    def _rule_from(self, L, R):
        if self._def_from(L, R):
            return
        # a^2 == R (R polynomial) with a an atom that has no rule yet
        for X, Y in ((L, R), (R, L)):
            X = X.simplify_const_den()
            Y = Y.simplify_const_den()
            if not (X.d.is_const() and Y.d.is_const()):
                continue
            if len(X.n.t) == 1:
                (mono, coef), = X.n.t.items()
                if len(mono) == 1 and mono[0][1] == 2 and mono[0][0] not in self.rules:
                    a = mono[0][0]
                    rhs = Y.n.scale(1 / coef)
                    if a not in rhs.atoms():
                        self.rules[a] = rhs
                        return
        # c^2 + s^2 == const  ->  c^2 := const - s^2
        D = (L - R).simplify_const_den()
        if D.d.is_const():
            sq = [(m, v) for m, v in D.n.t.items() if len(m) == 1 and m[0][1] == 2]
            others = [(m, v) for m, v in D.n.t.items() if not (len(m) == 1 and m[0][1] == 2)]
            if len(sq) == 2 and all(m == () for m, _ in others):
                (m1, v1), (m2, v2) = sq
                a = m1[0][0]
                if a not in self.rules and m2[0][0] not in self.rules:
                    rest = Poly({k: v for k, v in D.n.t.items() if k != m1})
                    self.rules[a] = rest.scale(-1 / v1)

    def _apply_defs(self, p):
        guard = 0
        while guard < 20:
            guard += 1
            hit = False
            acc = Poly()
            for mono, coef in p.t.items():
                da = next((a for a, e in mono if a in self.defs), None)
                if da is None:
                    acc = acc + Poly({mono: coef})
                    continue
                hit = True
                e = dict(mono)[da]
                rest = tuple((b, f) for b, f in mono if b != da)
                rep = Poly({rest: coef})
                for _ in range(e):
                    rep = rep * self.defs[da]
                acc = acc + rep
            p = acc
            if not hit:
                break
        return p

    def reduce(self, p):
        if self.defs and p.t:
            p = self._apply_defs(p)
        if not self.rules or not p.t:
            return p
        changed = True
        guard = 0
        while changed:
            changed = False
            guard += 1
            if guard > 50:
                break
            out = Poly()
            acc = {}
            for mono, coef in p.t.items():
                hit = None
                for a, e in mono:
                    if e >= 2 and a in self.rules:
                        hit = (a, e)
                        break
                if hit is None:
                    nv = acc.get(mono, ZERO) + coef
                    if nv == 0:
                        acc.pop(mono, None)
                    else:
                        acc[mono] = nv
                    continue
                changed = True
                a, e = hit
                rest = tuple((b, f) for b, f in mono if b != a)
                if e % 2:
                    rest = _mono_mul(rest, ((a, 1),))
                rep = Poly({rest: coef})
                r = self.rules[a]
                for _ in range(e // 2):
                    rep = rep * r
                for m2, v2 in rep.t.items():
                    nv = acc.get(m2, ZERO) + v2
                    if nv == 0:
                        acc.pop(m2, None)
                    else:
                        acc[m2] = nv
            p = Poly(acc)
        return p

    def reduce_rf(self, r):
        if not self.rules and not self.defs:
            return r
        return r.map_polys(self.reduce)

    # -- back to z3
    def poly_to_z3(self, p):
        if not p.t:
            return z3.RealVal(0)
        terms = []
        for mono, coef in p.t.items():
            fs = []
            if coef != 1 or not mono:
                fs.append(z3.RealVal(str(coef)))
            for a, e in mono:
                t = self.atom_terms[a]
                for _ in range(e):
                    fs.append(t)
            terms.append(fs[0] if len(fs) == 1 else z3.Product(*fs))
        return terms[0] if len(terms) == 1 else z3.Sum(*terms)

    def difference_numerator(self, a, b):
        """Reduced numerator polynomial of a - b and the two denominators."""
        A, B = self.rf(a), self.rf(b)
        # (numerator over the least common denominator: A - B == 0 iff it vanishes, given non-zero denominators)
        N = self.reduce((A - B).n)
        return N, A.d, B.d


def _single_atom(r):
    r = r.simplify_const_den()
    if r.d.is_const() and len(r.n.t) == 1:
        (mono, coef), = r.n.t.items()
        if coef == 1 and len(mono) == 1 and mono[0][1] == 1:
            return mono[0][0]
    return None


def _conjuncts(c):
    if z3.is_app(c) and c.decl().kind() == z3.Z3_OP_AND:
        out = []
        for x in c.children():
            out.extend(_conjuncts(x))
        return out
    return [c]


def selfcheck(canon, term, rf, rng, tries=2):
    """Evaluate the z3 term and its normal form at random rational points where all
    atoms are assigned independently (UF applications / If-terms are evaluated by z3
    from the variable assignment when they are variable-free of other atoms)."""
    vars_ = [(i, t) for i, t in enumerate(canon.atom_terms) if z3.is_const(t) and t.decl().kind() == z3.Z3_OP_UNINTERPRETED]
    if len(vars_) != len(canon.atom_terms):
        return None  # atoms that are not plain variables: skip (UF values are not free)
    for _ in range(tries):
        vals = {i: Fraction(rng.randint(-9, 9), rng.randint(1, 5)) for i, _ in vars_}
        sub = [(t, z3.RealVal(str(vals[i]))) for i, t in vars_]
        try:
            v = z3.simplify(z3.substitute(term, *sub))
        except z3.Z3Exception:
            return None
        if not z3.is_rational_value(v):
            return None
        lhs = Fraction(v.numerator_as_long(), v.denominator_as_long())
        n = _eval(rf.n, vals)
        d = _eval(rf.d, vals)
        if d == 0:
            continue
        if lhs != n / d:
            return False
    return True


def _eval(p, vals):
    tot = ZERO
    for mono, coef in p.t.items():
        x = coef
        for a, e in mono:
            x *= vals[a] ** e
        tot += x
    return tot
