"""Contract stubs at the C boundaries (LAPACK, NumPy scalar ufuncs without object loops).

Every stub delegates to the real routine for ordinary float input, so the real
code paths are unchanged for concrete data (used by replay / stub validation).
"""
from __future__ import annotations

import types

import numpy as np
import numpy.linalg as real_nla
import scipy.linalg as real_sla
import z3

from .core import SV, cur, rv


def is_symarr(a):
    return isinstance(a, np.ndarray) and a.dtype == object


def _obj(a):
    return np.asarray(a, dtype=object)


def solve_triangular(a, b, lower=False, trans=0, check_finite=True, **kw):
    if not (is_symarr(a) or is_symarr(np.asarray(b))):
        return real_sla.solve_triangular(a, b, lower=lower, trans=trans, check_finite=check_finite, **kw)
    a = _obj(a)
    b = _obj(b)
    if trans in (1, "T"):
        a = a.T
        lower = not lower
    n = a.shape[0]
    x = np.empty(b.shape, dtype=object)
    order = range(n) if lower else range(n - 1, -1, -1)
    for i in order:
        s = b[i]
        js = range(i) if lower else range(i + 1, n)
        for j in js:
            s = s - a[i, j] * x[j]
        x[i] = s / a[i, i]
    return x


def lu_factor(a, check_finite=True, **kw):
    if not is_symarr(a):
        return real_sla.lu_factor(a, check_finite=check_finite, **kw)
    n = a.shape[0]
    lu = a.copy()
    for k in range(n):
        for i in range(k + 1, n):
            lu[i, k] = lu[i, k] / lu[k, k]
            for j in range(k + 1, n):
                lu[i, j] = lu[i, j] - lu[i, k] * lu[k, j]
    return lu, np.arange(n)


def lu_solve(lu_and_piv, b, trans=0, check_finite=True, **kw):
    lu, piv = lu_and_piv
    if not (is_symarr(lu) or is_symarr(np.asarray(b))):
        return real_sla.lu_solve(lu_and_piv, b, trans=trans, check_finite=check_finite, **kw)
    lu = _obj(lu)
    b = _obj(b)
    n = lu.shape[0]
    L = np.tril(lu, -1) + np.identity(n)
    U = np.triu(lu)
    assert list(piv) == list(range(n))
    if not trans:
        y = solve_triangular(L, b, lower=True)
        return solve_triangular(U, y, lower=False)
    y = solve_triangular(U.T, b, lower=True)
    return solve_triangular(L.T, y, lower=False)


def cholesky(a):
    if not is_symarr(a):
        return real_nla.cholesky(a)
    n = a.shape[0]
    L = np.zeros((n, n), dtype=object)
    for j in range(n):
        s_ = a[j, j]
        for k in range(j):
            s_ = s_ - L[j, k] * L[j, k]
        d = s_ if hasattr(s_, "sqrt") else SV.lift(s_)
        # contract: input positive definite => pivot > 0
        dv = d.v if hasattr(d, "v") else (d.c[0] if hasattr(d, "c") else d)  # dual: value; series: leading coefficient
        if isinstance(dv, SV):
            cur().add_side(dv.e > 0)
        L[j, j] = d.sqrt()
        lv = L[j, j].v if hasattr(L[j, j], "v") else (L[j, j].c[0] if hasattr(L[j, j], "c") else L[j, j])
        if isinstance(lv, SV):
            cur().add_side(lv.e > 0)
        for i in range(j + 1, n):
            s_ = a[i, j]
            for k in range(j):
                s_ = s_ - L[i, k] * L[j, k]
            L[i, j] = s_ / L[j, j]
    return L


EIGH_KNOWN = []  # (a00, a10, a11 z3 terms, [w0, w1] SV, Q 2x2 SV array, side assumptions) registered by harnesses
EIGH_LOG = {"known": 0, "diagonal": 0, "generic": 0}


def register_eigh(A, w, Q, assume=()):
    """A harness that builds a symmetric 2x2 array as Q diag(w) Q^T tells the eigh stub,
    so that eigh(A) returns that decomposition (sorted ascending) instead of fresh symbols."""
    EIGH_KNOWN.append((SV.lift(A[0, 0]).e, SV.lift(A[1, 0]).e, SV.lift(A[1, 1]).e, list(w), Q, list(assume)))


def _same(cn, x, y):
    N, _, _ = cn.difference_numerator(x, y)
    return N.is_zero()


def eigh(a):
    """Contract: returns ascending eigenvalues w and orthogonal v with a = v diag(w) v^T.

    1x1: exact.  Diagonal 2x2 (off-diagonal syntactically zero): sorted by a forked
    comparison, identity/permutation eigenvectors.  2x2 arrays registered by the harness
    as Q diag(w) Q^T: that decomposition, sorted by a forked comparison.  General 2x2:
    fresh symbols constrained by the documented contract (plus its trace/determinant
    consequences).
    """
    if not is_symarr(a):
        return real_nla.eigh(a)
    n = a.shape[0]
    if n == 1:
        return np.array([a[0, 0]], dtype=object), np.array([[SV(1)]], dtype=object)
    if n == 2:
        ctx = cur()
        off = SV.lift(a[1, 0])  # eigh reads the lower triangle
        offs = z3.simplify(off.e)
        if z3.is_rational_value(offs) and offs.numerator_as_long() == 0:
            EIGH_LOG["diagonal"] += 1
            if bool(SV.lift(a[0, 0]) <= SV.lift(a[1, 1])):
                return (np.array([a[0, 0], a[1, 1]], dtype=object),
                        np.array([[SV(1), SV(0)], [SV(0), SV(1)]], dtype=object))
            return (np.array([a[1, 1], a[0, 0]], dtype=object),
                    np.array([[SV(0), SV(1)], [SV(1), SV(0)]], dtype=object))
        a00, a10, a11 = SV.lift(a[0, 0]).e, off.e, SV.lift(a[1, 1]).e
        if EIGH_KNOWN:
            from .canon import Canon
            for (k00, k10, k11, w, Q, assume) in EIGH_KNOWN:
                cn = Canon()
                cn.learn_rules(assume + ctx.side + ctx.extra)
                try:
                    # allow a scalar multiple: a = f * known with f = ratio of the first entries
                    if _same(cn, a00, k00) and _same(cn, a10, k10) and _same(cn, a11, k11):
                        f = None
                    elif _same(cn, a00 * k10, a10 * k00) and _same(cn, a11 * k10, a10 * k11):
                        f = SV(a10) / SV(k10)
                    else:
                        continue
                except (ValueError, ZeroDivisionError):
                    continue
                EIGH_LOG["known"] += 1
                ws = [SV.lift(x) if f is None else f * SV.lift(x) for x in w]
                if bool(ws[0] <= ws[1]):
                    return np.array(ws, dtype=object), np.array(Q, dtype=object).copy()
                Qs = np.array([[Q[0, 1], Q[0, 0]], [Q[1, 1], Q[1, 0]]], dtype=object)
                return np.array([ws[1], ws[0]], dtype=object), Qs
        EIGH_LOG["generic"] += 1
        # functional consistency: the same input (normal forms) gets the same decomposition
        memo = ctx.data.setdefault("eigh_memo", [])
        if memo:
            from .canon import Canon
            cn = Canon()
            cn.learn_rules(ctx.side + ctx.extra)
            for (k00, k10, k11, res) in memo:
                try:
                    if _same(cn, a00, k00) and _same(cn, a10, k10) and _same(cn, a11, k11):
                        return res[0].copy(), res[1].copy()
                except (ValueError, ZeroDivisionError):
                    pass
        w0, w1 = ctx.fresh("eigval"), ctx.fresh("eigval")
        c, s = ctx.fresh("eigc"), ctx.fresh("eigs")
        # v = [[c, -s], [s, c]] rotation; a = v diag(w) v^T
        ctx.add_side(c * c + s * s == 1)
        ctx.add_side(w0 <= w1)
        ctx.add_side(a00 == c * c * w0 + s * s * w1)
        ctx.add_side(a11 == s * s * w0 + c * c * w1)
        ctx.add_side(a10 == c * s * (w0 - w1))
        ctx.add_side(w0 + w1 == a00 + a11)
        ctx.add_side(w0 * w1 == a00 * a11 - a10 * a10)
        res = (np.array([SV(w0), SV(w1)], dtype=object),
               np.array([[SV(c), SV(-s)], [SV(s), SV(c)]], dtype=object))
        memo.append((a00, a10, a11, res))
        return res[0].copy(), res[1].copy()
    raise NotImplementedError("eigh stub: size > 2")


def sqrtm(a):
    if not is_symarr(a):
        return real_sla.sqrtm(a)
    n = a.shape[0]
    if n == 1:
        x = SV.lift(a[0, 0])
        cur().add_side(x.e > 0)
        return np.array([[x.sqrt()]], dtype=object)
    if n == 2:
        # principal square root of an SPD 2x2: X symmetric PD with X X = A
        ctx = cur()
        x00, x01, x11 = ctx.fresh("sqrtm"), ctx.fresh("sqrtm"), ctx.fresh("sqrtm")
        a00, a01, a10, a11 = (SV.lift(a[i, j]).e for i in (0, 1) for j in (0, 1))
        ctx.add_side(x00 > 0)
        ctx.add_side(x00 * x11 - x01 * x01 > 0)
        ctx.add_side(x00 * x00 + x01 * x01 == a00)
        ctx.add_side(x01 * (x00 + x11) == a01)
        ctx.add_side(x01 * x01 + x11 * x11 == a11)
        return np.array([[SV(x00), SV(x01)], [SV(x01), SV(x11)]], dtype=object)
    raise NotImplementedError("sqrtm stub: size > 2")


sla_shim = types.SimpleNamespace(
    solve_triangular=solve_triangular,
    lu_factor=lu_factor,
    lu_solve=lu_solve,
    block_diag=real_sla.block_diag,
    sqrtm=sqrtm,
    LinAlgError=getattr(real_sla, "LinAlgError", real_nla.LinAlgError),
)
nla_shim = types.SimpleNamespace(
    cholesky=cholesky,
    eigh=eigh,
    LinAlgError=real_nla.LinAlgError,
    norm=real_nla.norm,
)


class NPShim:
    """Forwarding shim for a module's ``np`` global overriding scalar ufuncs that
    have no object loop (isnan...) or that would fork needlessly (sign)."""

    def __init__(self, extra=None):
        self._extra = extra or {}

    def __getattr__(self, k):
        if k in self._extra:
            return self._extra[k]
        return getattr(np, k)

    @staticmethod
    def _symscalar(x):
        return hasattr(x, "isnan") and not isinstance(x, np.ndarray)

    def isnan(self, x):
        if NPShim._symscalar(x):
            return x.isnan()
        if isinstance(x, np.ndarray) and x.dtype == object:
            return np.array([getattr(v, "isnan", lambda: False)() if not isinstance(v, float) else np.isnan(v)
                             for v in x.ravel()]).reshape(x.shape)
        return np.isnan(x)

    def isfinite(self, x):
        if NPShim._symscalar(x):
            return x.isfinite()
        if isinstance(x, np.ndarray) and x.dtype == object:
            return np.array([getattr(v, "isfinite", lambda: True)() if not isinstance(v, float) else np.isfinite(v)
                             for v in x.ravel()]).reshape(x.shape)
        return np.isfinite(x)

    def sign(self, x):
        if hasattr(x, "sign") and not isinstance(x, np.ndarray):
            return x.sign()
        return np.sign(x)

    def exp(self, x):
        if hasattr(x, "exp") and not isinstance(x, np.ndarray):
            return x.exp()
        return np.exp(x)

    def log(self, x):
        if hasattr(x, "log") and not isinstance(x, np.ndarray):
            return x.log()
        return np.log(x)

    def sqrt(self, x):
        if hasattr(x, "sqrt") and not isinstance(x, np.ndarray):
            return x.sqrt()
        return np.sqrt(x)

    def abs(self, x):
        if isinstance(x, np.ndarray):
            return np.abs(x)
        return abs(x)


def _mixed_elementwise(name):
    """np.<name> that also works on object arrays mixing symbolic scalars and plain Python/NumPy floats (NumPy's object loop
    calls ``element.<name>()``, which floats do not have): branch-free code such as ``np.where(mask, 1.0, x)`` followed by
    ``np.tanh`` produces exactly such arrays."""
    import math as _m

    def f(self, x, *a, **k):
        if isinstance(x, np.ndarray) and x.dtype == object:
            out = np.empty(x.shape, dtype=object)
            for idx in np.ndindex(*x.shape):
                v = x[idx]
                out[idx] = getattr(v, name)() if hasattr(v, name) else getattr(_m, name)(float(v))
            return out
        if hasattr(x, name) and not isinstance(x, np.ndarray):
            return getattr(x, name)()
        return getattr(np, name)(x, *a, **k)
    return f


for _nm in ("tanh", "sinh", "cosh", "sin", "cos", "exp", "log", "sqrt"):
    setattr(NPShim, _nm, _mixed_elementwise(_nm))


def install(np_modules=("solvers", "transitions", "adapters", "integrators", "systems")):
    """Install LAPACK shims into mici.matrices and np shims into the given mici modules (mici.matrices always gets the shim:
    everything but the few overridden scalar functions is forwarded to NumPy unchanged)."""
    import importlib

    M = importlib.import_module("mici.matrices")
    M.sla = sla_shim
    M.nla = nla_shim
    shim = NPShim()
    M.np = shim
    for name in np_modules:
        mod = importlib.import_module("mici." + name)
        mod.np = shim
    return shim
