"""Runner: fans the cases of one property out over worker processes, replays
candidates against the real code, runs canaries, writes evidence, sets exit code.

exit 0: every obligation discharged (known findings are printed as KNOWN-FINDING)
exit 1: a reproduced violation not listed in KNOWN_FINDINGS.txt (VIOLATION line)
exit 3: inconclusive (solver unknown / timeout / harness error / non-reproducing model)
"""
from __future__ import annotations

import argparse
import hashlib
import importlib
import json
import os
import subprocess
import sys
import tempfile
import time
from concurrent.futures import ThreadPoolExecutor

ROOT = os.path.dirname(os.path.dirname(os.path.abspath(__file__)))
PY = os.path.join(ROOT, ".venv", "bin", "python")
MARK = "@@SYMX-RESULT@@ "


def run_worker(pid, tier, case, timeout_s, canary=None, replay=None):
    cmd = [PY, "-m", "symx.worker", pid, tier, case]
    if canary:
        cmd += ["--canary", canary]
    if replay:
        cmd += ["--replay", replay]
    env = dict(os.environ)
    env["PYTHONPATH"] = ROOT
    if os.environ.get("SYMX_MICI_SRC"):
        # development aid (seeded-change evaluation in a scratch worktree): analyse this source tree instead of /repo/src
        env["PYTHONPATH"] = os.environ["SYMX_MICI_SRC"] + os.pathsep + ROOT
    env["PYTHONDONTWRITEBYTECODE"] = "1"
    env["PYTHONHASHSEED"] = "0"
    env.setdefault("MICI_VERIF", "1")
    t0 = time.time()
    try:
        p = subprocess.run(cmd, cwd=ROOT, env=env, capture_output=True, text=True, timeout=timeout_s)
    except subprocess.TimeoutExpired:
        return {"case": case, "ok": False, "error": f"timeout after {timeout_s}s", "timeout": True,
                "worker_wall_s": time.time() - t0}
    for line in reversed(p.stdout.splitlines()):
        if line.startswith(MARK):
            r = json.loads(line[len(MARK):])
            r["stdout_tail"] = "\n".join(p.stdout.splitlines()[-5:-1])[-500:]
            return r
    return {"case": case, "ok": False, "error": "no result line",
            "stderr": p.stderr[-3000:], "stdout": p.stdout[-1000:], "worker_wall_s": time.time() - t0}


def load_known():
    known, fixed = [], []
    path = os.path.join(ROOT, "KNOWN_FINDINGS.txt")
    if os.path.exists(path):
        for line in open(path):
            line = line.strip()
            if not line or line.startswith("#"):
                continue
            kind, _, rest = line.partition(":")
            rest = rest.strip()
            fields = dict(tok.split("=", 1) for tok in rest.split() if "=" in tok and tok.split("=", 1)[0] in ("property", "key"))
            if kind == "known":
                known.append((fields.get("property"), fields.get("key"), rest))
            elif kind == "fixed":
                fixed.append(rest)
    return known, fixed


def main(argv=None):
    ap = argparse.ArgumentParser()
    ap.add_argument("pid")
    ap.add_argument("--tier", default=os.environ.get("VERIF_TIER", "quick"))
    ap.add_argument("--replay", default=None)
    ap.add_argument("--jobs", type=int, default=int(os.environ.get("VERIF_JOBS", "16")))
    ap.add_argument("--only", default=None, help="substring filter on case names (debugging; evidence marks it)")
    ap.add_argument("--no-canaries", action="store_true")
    a = ap.parse_args(argv)
    pid, tier = a.pid, a.tier
    seed = int(os.environ.get("VERIF_SEED", "0"))
    t0 = time.time()
    sys.path.insert(0, ROOT)

    if a.replay:
        r = run_worker(pid, tier, "replay", 600, replay=a.replay)
        print(json.dumps(r.get("replay", r), indent=1))
        rep = r.get("replay") or {}
        if rep.get("reproduced"):
            print(f"VIOLATION property={pid} replay={a.replay}")
            return 1
        return 0

    # case list and metadata come from the harness module (imported here only to enumerate)
    meta_json = subprocess.run(
        [PY, "-c", f"import json,sys; sys.path.insert(0,{ROOT!r}); import importlib; m=importlib.import_module('harness.{pid}');"
                   f"cs=m.cases({tier!r}); print({MARK!r}+json.dumps({{'cases':[[c.name,c.timeout_s,c.group] for c in cs],'meta':m.META}}))"],
        capture_output=True, text=True, cwd=ROOT, env={**os.environ, "PYTHONPATH": (os.environ.get("SYMX_MICI_SRC", "") + os.pathsep + ROOT).lstrip(os.pathsep),
                                                        "PYTHONDONTWRITEBYTECODE": "1"})
    line = [l for l in meta_json.stdout.splitlines() if l.startswith(MARK)]
    if not line:
        print("HARNESS-ERROR: cannot enumerate cases\n" + meta_json.stderr[-3000:])
        write_evidence(pid, tier, seed, t0, None, [], [], [], [], error="cannot enumerate cases: " + meta_json.stderr[-1500:])
        return 3
    info = json.loads(line[0][len(MARK):])
    cases = info["cases"]
    meta = info["meta"]
    if a.only:
        cases = [c for c in cases if a.only in c[0]]

    from harness.canaries import CANARIES
    canaries = CANARIES.get(pid, {})
    canary_jobs = []
    if not a.no_canaries:
        for cname, spec in canaries.items():
            if tier in spec.get("tiers", ("quick", "thorough")):
                known = {c[0] for c in info["cases"]}
                for case in spec["cases"]:
                    if case not in known:
                        # a case that this tier splits into chunks (name/s0, name/s1, ...): its first chunk
                        alt = [k for k in known if k.startswith(case + "/")]
                        case = sorted(alt)[0] if alt else case
                    canary_jobs.append((cname, case))
    tmo = {c[0]: c[1] for c in cases}

    results = []
    canary_results = {}
    with ThreadPoolExecutor(max_workers=a.jobs) as ex:
        futs = [(c[0], ex.submit(run_worker, pid, tier, c[0], c[1])) for c in cases]
        # canaries are a self-test of discriminating power: capped at 400 s each (a mutation that only makes the solver slow
        # is reported as surviving, it does not hold up the check)
        cfuts = [(cn, case, ex.submit(run_worker, pid, tier, case, min(tmo.get(case, 300), 400), cn)) for cn, case in canary_jobs]
        for name, f in futs:
            r_ = f.result()
            results.append(r_)
            if os.environ.get("SYMX_PROGRESS"):
                bad_ = [o["label"] + ":" + o["verdict"] for o in r_.get("obligations", []) if o["verdict"] != "unsat"]
                print(f"  [{time.time() - t0:6.0f}s] {name}: ok={r_.get('ok')} wall={r_.get('worker_wall_s')} "
                      f"obl={len(r_.get('obligations', []))} bad={bad_[:3]} err={str(r_.get('error'))[:200]} {r_.get('errors', [])[:1]}",
                      file=sys.stderr, flush=True)
        for cn, case, f in cfuts:
            canary_results.setdefault(cn, []).append((case, f.result()))

    # ---- collect
    inconclusive = []
    candidates = []
    for r in results:
        if not r.get("ok"):
            inconclusive.append(f"{r.get('case')}: {r.get('error')}")
            continue
        for e in r.get("errors", []):
            inconclusive.append(f"{r['case']}: {e}")
        for o in r["obligations"]:
            if o["verdict"] == "unknown":
                inconclusive.append(f"{r['case']}: obligation '{o['label']}' unknown after {o['time_s']}s")
        tws = r.get("reach", [])
        solver_dep = [o for o in r["obligations"] if o["verdict"] == "unsat" and not o.get("syntactic")]
        if tws and solver_dep and not any(tw["verdict"] == "sat" for tw in tws):
            inconclusive.append(f"{r['case']}: no path has a satisfiable reachability twin "
                                f"({[tw['verdict'] for tw in tws][:5]}): the case may be vacuous")
        candidates.extend(r["candidates"])

    # ---- replay candidates on the real, unstubbed code
    known, fixed = load_known()
    replays = []
    os.makedirs(os.path.join(ROOT, "replays"), exist_ok=True)

    def do_replay(c):
        with tempfile.NamedTemporaryFile("w", suffix=".json", delete=False, dir=os.path.join(ROOT, "replays")) as f:
            json.dump(c, f, default=str)
            path = f.name
        r = run_worker(pid, tier, "replay", 600, replay=path)
        return c, path, r

    # replay one candidate per key first (cheap), all keys
    by_key = {}
    for c in candidates:
        by_key.setdefault(c["key"], []).append(c)
    with ThreadPoolExecutor(max_workers=a.jobs) as ex:
        rep_futs = []
        for key, cs in by_key.items():
            for c in cs[:3]:
                rep_futs.append(ex.submit(do_replay, c))
        rep_out = [f.result() for f in rep_futs]
    violations = []
    known_hits = []
    reproduced_keys = {}
    for c, path, r in rep_out:
        rep = r.get("replay") if r.get("ok") else None
        entry = {"key": c["key"], "label": c["label"], "case": c["case"], "reproduced": bool(rep and rep.get("reproduced")),
                 "detail": (rep or {}).get("detail") if rep else r.get("error", "") + r.get("traceback", "")[-800:]}
        replays.append(entry)
        if entry["reproduced"]:
            reproduced_keys.setdefault(c["key"], (c, path, rep))
        else:
            try:
                os.unlink(path)
            except OSError:
                pass
    for key, cs in by_key.items():
        if key in reproduced_keys:
            c, path, rep = reproduced_keys[key]
            hit = [k for k in known if k[0] == pid and k[1] == key]
            if hit:
                known_hits.append((key, hit[0][2], rep.get("detail", "")))
                os.unlink(path)
            else:
                h = hashlib.sha1(json.dumps(c, sort_keys=True, default=str).encode()).hexdigest()[:10]
                final = os.path.join(ROOT, "replays", f"{pid}-{h}.json")
                os.replace(path, final)
                violations.append((key, final, rep.get("detail", "")))
        else:
            inconclusive.append(f"candidate '{key}' ({len(cs)} model(s)) did not reproduce on the real code: "
                                + "; ".join(str(e["detail"])[:200] for e in replays if e["key"] == key)[:600])
    # remove leftover temp replay files of reproduced duplicates
    for c, path, r in rep_out:
        if os.path.exists(path) and os.path.basename(path).startswith("tmp"):
            try:
                os.unlink(path)
            except OSError:
                pass

    # ---- canaries
    canary_report = []
    for cn, lst in canary_results.items():
        refuted = False
        detail = []
        for case, r in lst:
            if r.get("ok") and r.get("candidates"):
                refuted = True
                detail.append(f"{case}: {r['candidates'][0]['label']}")
            elif not r.get("ok"):
                err = str(r.get("error"))
                if "CANARY-PATTERN-MISSING" in err:
                    detail.append(f"{case}: pattern not found in current source (canary skipped)")
                else:
                    # a mutation that makes mici crash inside the harness counts as detected-by-error
                    detail.append(f"{case}: harness error under mutation: {err[:200]}")
            elif r.get("errors"):
                detail.append(f"{case}: {r['errors'][0][:200]}")
        canary_report.append({"canary": cn, "what": canaries[cn].get("what", ""), "refuted": refuted, "detail": detail[:4]})

    write_evidence(pid, tier, seed, t0, meta, results, replays, canary_report, inconclusive,
                   violations=violations, known_hits=known_hits, only=a.only)

    for key, text, detail in known_hits:
        print(f"KNOWN-FINDING: {text}")
    for key, path, detail in violations:
        print(f"VIOLATION property={pid} replay={path}")
        print(f"  what: {key}: {str(detail)[:400]}")
    nobl = sum(len(r.get("obligations", [])) for r in results if r.get("ok"))
    ndis = sum(1 for r in results if r.get("ok") for o in r["obligations"] if o["verdict"] == "unsat")
    npaths = sum(r.get("paths", 0) for r in results if r.get("ok"))
    surv = [c["canary"] for c in canary_report if not c["refuted"]]
    print(f"{pid} [{tier}] cases={len(results)} paths={npaths} obligations={nobl} discharged={ndis} "
          f"candidates={len(candidates)} violations={len(violations)} known={len(known_hits)} "
          f"canaries={len(canary_report) - len(surv)}/{len(canary_report)} refuted wall={time.time() - t0:.1f}s")
    if surv:
        print("  surviving canaries (check too weak for these mutations): " + ", ".join(surv))
    if violations:
        return 1
    if inconclusive:
        print("INCONCLUSIVE:")
        for m in inconclusive[:20]:
            print("  - " + m[:700])
        return 3
    return 0


def write_evidence(pid, tier, seed, t0, meta, results, replays, canary_report, inconclusive,
                   violations=(), known_hits=(), error=None, only=None):
    ok = [r for r in results if r.get("ok")]
    obl = [o for r in ok for o in r["obligations"]]
    verd = {}
    for o in obl:
        verd[o["verdict"]] = verd.get(o["verdict"], 0) + 1
    distinct = len({(r["case"], o["label"]) for r in ok for o in r["obligations"]})
    samples = []
    for r in ok:
        for s in r.get("samples", []):
            if len(samples) < 4:
                samples.append({"case": r["case"], **(s if isinstance(s, dict) else {"sample": s})})
    if not samples:
        samples = [{"case": r["case"], "obligations": r["obligations"][:3]} for r in ok[:2]] or [{"note": "no case ran"}]
    functions = sorted({f for r in ok for f in r.get("functions", [])})
    assumptions = sorted({x for r in ok for x in r.get("assumptions", [])})
    meta = meta or {}
    level = meta.get("level", "model_checking")
    npaths = sum(r.get("paths", 0) for r in ok)
    ndec = sum(r.get("decisions", 0) for r in ok)
    solver_s = sum(r.get("solver", {}).get("solver_s", 0) for r in ok)
    feas_s = sum(r.get("solver", {}).get("feasibility_s", 0) for r in ok)
    feas_q = sum(r.get("solver", {}).get("feasibility_queries", 0) for r in ok)
    enum_level = level in ("fault_enumeration", "exploration")
    cov = {
        "evaluations": max(1, npaths if enum_level else len(obl) + feas_q),
        "distinct_nontrivial": max(npaths if enum_level else distinct, 0),
        "rule": ("one evaluation = one explored path = one distinct decision script (fault schedule / interrupt position / random outcomes) "
                 "executed on the real code; scripts are distinct by construction of the depth-first enumeration; non-trivial = the script "
                 "was executed to completion and its containment predicates evaluated") if enum_level else
                ("one evaluation = one SMT query (obligation or path-feasibility); distinct_nontrivial counts distinct "
                 "(case, obligation label) pairs; obligations whose normal form is the zero polynomial or whose two sides are the "
                 "identical term are flagged 'syntactic' in the case records"),
        "samples": samples,
        "states": max(1, npaths),
        "transitions": max(1, ndec + npaths),
        # symbolic paths whose model was re-run with floats on the unstubbed real code with every obligation holding numerically
        # (symx.eqcheck._validate_concretely), plus solver counterexamples reproduced on the real code
        "traces_validated_against_impl": sum(r.get("validated", 0) for r in ok) + len([r for r in replays if r["reproduced"]]),
        "validation_mismatches": [m for r in ok for m in r.get("validation_mismatches", [])][:40],
        "obligations": len(obl),
        "discharged": verd.get("unsat", 0),
        "verdicts": verd,
        "checker_cmd": f"./bin/check {pid} --tier {tier}",
        "trusted_base": ["z3 (python wheel in /verif/.venv)", "symx engine (/verif/symx)", "stubs listed under 'stubs'",
                         "CPython/NumPy object-array semantics"],
        "explanation": meta.get("explanation", ""),
        "exhaustive": False,
        "technique": meta.get("technique", "symbolic execution of the real Python code + z3"),
        "functions_encoded": functions,
        "bounds": meta.get("bounds", {}).get(tier, meta.get("bounds", {})),
        "outside_bounds": meta.get("outside", ""),
        "stubs": meta.get("stubs", []),
        "paths": npaths,
        "decisions": ndec,
        "solver_time_s": round(solver_s, 3),
        "feasibility_queries": feas_q,
        "feasibility_time_s": round(feas_s, 3),
        "cases": [{"case": r.get("case"), "ok": r.get("ok"), "paths": r.get("paths"), "obligations": len(r.get("obligations", [])),
                   "undischarged": [o["label"] for o in r.get("obligations", []) if o["verdict"] != "unsat"][:10],
                   "wall_s": r.get("wall_s", r.get("worker_wall_s")), "error": r.get("error"),
                   "notes": r.get("notes", [])[:6]} for r in results],
        "reachability_twins": [{"case": r["case"], **tw} for r in ok for tw in r.get("reach", [])][:60],
        "canaries": canary_report,
        "replays": replays[:40],
        "known_findings_matched": [{"key": k, "entry": t, "detail": str(d)[:400]} for k, t, d in known_hits],
        "violations_detail": [{"key": k, "replay": p, "detail": str(d)[:600]} for k, p, d in violations],
        "inconclusive": list(inconclusive)[:40],
    }
    if only:
        cov["partial_run_filter"] = only
    if error:
        cov["error"] = error
    ev = {
        "property_id": pid,
        "tier": tier if tier in ("quick", "thorough") else "quick",
        "seed": seed,
        "level": level,
        "coverage": cov,
        "assumptions": assumptions + list(meta.get("assumptions", [])),
        "wall_s": round(time.time() - t0, 2),
        "violations": len(violations),
    }
    evdir = os.environ.get("SYMX_EVIDENCE_DIR") or os.path.join(ROOT, "evidence")  # (redirected only for seeded-change evaluation)
    os.makedirs(evdir, exist_ok=True)
    with open(os.path.join(evdir, f"{pid}.json"), "w") as f:
        json.dump(ev, f, indent=1, default=str)


if __name__ == "__main__":
    sys.exit(main())
