"""Generic driver for "code value == reference value" properties.

A *problem* is a function ``prob(mk, **kw) -> list[Item]`` written once, generic over
the number type: with a SymMk it runs the real mici code on z3-valued object arrays
(the explorer forks on data-dependent branches) and every Item becomes obligations;
with a ConcMk (values from a model) it is the concrete replay on the unstubbed code.
"""
from __future__ import annotations

import math
import traceback
from fractions import Fraction

import numpy as np
import z3

from .core import SV, SB, Abort, Ctx, explore, exprs, cur, rv, model_float, NUM, DEBUG
from .mk import SymMk, ConcMk, differs


class Item:
    def __init__(self, label, code, ref, kind="eq", key=None):
        self.label = label
        self.code = code
        self.ref = ref
        self.kind = kind  # eq | logabs | true
        self.key = key


class Skip(Exception):
    """Raised by a problem for configurations that are documented as unsupported."""


class CtxSymMk(SymMk):
    """SymMk whose assumptions are also fed to the current path's solver."""

    def real(self, name):
        return super().real(name)

    def _push(self, n0):
        ctx = Ctx.cur
        if ctx is not None:
            for a in self.assume[n0:]:
                ctx.extra.append(a)

    def pos(self, name):
        n0 = len(self.assume)
        s = super().pos(name)
        self._push(n0)
        return s

    def nonzero(self, name):
        n0 = len(self.assume)
        s = super().nonzero(name)
        self._push(n0)
        return s

    def unit_pair(self, name):
        n0 = len(self.assume)
        r = super().unit_pair(name)
        self._push(n0)
        return r

    def require(self, cond):
        """Add a precondition (SB or z3 bool)."""
        e = cond.e if isinstance(cond, SB) else cond
        self.assume.append(e)
        ctx = Ctx.cur
        if ctx is not None:
            ctx.extra.append(e)


def _conc_require(self, cond):
    return None


ConcMk.require = _conc_require


# ---------------------------------------------------------------- log handling
def exp_terms(e):
    """Decompose a z3 real term that is (after normalisation) a rational-linear combination of LOG(x_i)
    atoms into [(x_i, Fraction coef)].  Anything else (left-over polynomial part, products of logs)
    raises ValueError."""
    from .canon import Canon
    cn = Canon()
    r = cn.rf(e).simplify_const_den()
    if not r.d.is_const():
        raise ValueError("log expression has a non-constant denominator")
    terms = {}
    for mono, coef in r.n.t.items():
        if len(mono) != 1 or mono[0][1] != 1:
            raise ValueError(f"term is not a single LOG atom: {[(str(cn.atom_terms[a_])[:40], ex) for a_, ex in mono]}")
        t = cn.atom_terms[mono[0][0]]
        if not (z3.is_app(t) and t.decl().kind() == z3.Z3_OP_UNINTERPRETED and t.decl().name() == "LOG"):
            raise ValueError(f"non-LOG atom {str(t)[:60]}")
        terms[mono[0][0]] = (t.children()[0], coef)
    return terms, Fraction(0)


def log_equals_log_of(code_log, ref_pos):
    """z3 formula stating exp(code_log) == ref_pos, for code_log a rational-linear
    combination of LOG terms with positive arguments.  Returns (negated_goal, extra_assumptions)."""
    e = z3.simplify(SV.lift(code_log).e)
    terms, const = exp_terms(e)
    if const != 0:
        raise ValueError(f"constant {const} in log expression")
    den = 1
    for _, c in terms.values():
        den = den * c.denominator // math.gcd(den, c.denominator)
    num = z3.RealVal(1)
    dn = z3.RealVal(1)
    pos = []
    for x, c in terms.values():
        k = int(c * den)
        pos.append(x > 0)
        for _ in range(abs(k)):
            if k > 0:
                num = num * x
            else:
                dn = dn * x
    r = SV.lift(ref_pos).e
    rp = z3.RealVal(1)
    for _ in range(den):
        rp = rp * r
    # exp(code)^den == ref^den, all factors positive
    return num, rp * dn, pos


# ---------------------------------------------------------------- symbolic run
def run_problem(rec, prob, kwargs=None, key_prefix="", timeout_ms=60000, max_paths=400, robust=True,
                per_entry_fallback=True, feas_timeout_ms=4000, well_defined=True):
    """Explore prob symbolically and discharge every item on every path."""
    kwargs = kwargs or {}
    n_items = 0
    seen = rec.__dict__.setdefault("_seen_syntactic", set())

    def fn(ctx):
        mk = CtxSymMk()
        ctx.mk = mk
        from . import stubs as _stubs
        _stubs.EIGH_KNOWN.clear()
        try:
            items = prob(mk, **kwargs)
        except Skip as e:
            return ("skip", str(e), mk)
        except Exception as e:  # noqa: BLE001  (engine control flow is BaseException)
            return ("crash", e, mk, traceback.format_exc())
        return ("ok", items, mk)

    n_validated = 0
    for res, ctx in explore(fn, max_paths=max_paths, feas_timeout_ms=feas_timeout_ms):
        rec.path(ctx)
        mk = res[2]
        assumptions = ctx.assumptions()
        tag = res[0]
        if tag == "skip":
            rec.note(f"skipped: {res[1]}")
            continue
        tw = rec.reachable(f"path{rec.paths}", assumptions, names=mk.names, seed_from=ctx.base + ctx.pc + ctx.extra)
        if tw == "unsat":
            rec.note(f"path{rec.paths}: infeasible (explored because a feasibility query timed out); dropped")
            continue
        if tag == "crash":
            exc = res[1]
            # an exception escaping mici on a feasible path: candidate, replayed concretely
            model = None
            for extra_c in ((mk.bounds() if robust else []), []):
                s = z3.Solver()
                s.set("timeout", 20000)
                for a_ in assumptions + extra_c:
                    s.add(a_)
                if str(s.check()) == "sat":
                    model = s.model()
                    break
            if model is None:
                # the exception was raised on a path whose feasibility the solver could not establish (explored only because
                # feasibility queries are answered conservatively) and for which it finds no witness: not a candidate
                rec.note(f"path{rec.paths}: {type(exc).__name__} on a path without a satisfying assignment (unresolved, dropped): {str(exc)[:80]}")
                rec.unresolved_paths = getattr(rec, "unresolved_paths", 0) + 1
                continue
            vals = mk.values(model)
            rec.candidate(key=f"{key_prefix}crash:{type(exc).__name__}", label=f"exception {type(exc).__name__}: {exc}",
                          payload={"kwargs": kwargs, "values": vals, "label": None, "crash": type(exc).__name__},
                          describe=res[3][-1500:])
            continue
        items = res[1]
        if n_validated < VALIDATE_PATHS and not rec.fail_fast and rec.__dict__.get("_validation_attempts", 0) < VALIDATE_PER_CASE:
            n_validated += 1
            rec._validation_attempts = rec.__dict__.get("_validation_attempts", 0) + 1
            _validate_concretely(rec, prob, kwargs, assumptions, mk, f"{key_prefix}path{rec.paths}")
        for it in items:
            n_items += 1
            sig = _signature(it)
            if sig is not None and sig in seen:
                rec.dedup = getattr(rec, "dedup", 0) + 1  # same terms already discharged syntactically on a sibling path
                continue
            n0 = len(rec.obligations)
            _discharge(rec, it, assumptions, mk, kwargs, key_prefix, timeout_ms, robust, per_entry_fallback)
            if sig is not None and all(o.get("syntactic") and o["verdict"] == "unsat" for o in rec.obligations[n0:]):
                seen.add(sig)
                rec.__dict__.setdefault("_seen_keepalive", []).append((it.code, it.ref))  # ids stay unique while referenced
    return n_items


VALIDATE_PATHS = 2      # per problem
VALIDATE_PER_CASE = 8   # per worker case (cases that run hundreds of small problems validate the first few)


class _Shim:
    pass


def _has_uf(e):
    """Does the term apply an uninterpreted function (SIN/LOG/... or a model function)?"""
    seen, stack = set(), [e]
    while stack:
        t = stack.pop()
        i = t.get_id()
        if i in seen:
            continue
        seen.add(i)
        if z3.is_app(t):
            if t.num_args() > 0 and t.decl().kind() == z3.Z3_OP_UNINTERPRETED:
                return True
            stack.extend(t.children())
    return False


def _validate_concretely(rec, prob, kwargs, assumptions, mk, tag):
    """Validation of the encoding against the implementation: a model of this path's assumptions (inputs kept in a moderate
    range) is turned into floats and the same problem is run on the real, unstubbed code (real LAPACK / NumPy); every obligation
    of the problem must hold numerically there.  Counted in the evidence as a trace validated against the implementation; a
    mismatch (the solver discharged an obligation that the real code violates at a concrete point, i.e. a stub or the engine
    hides a difference - or the point is ill-conditioned) is recorded in the evidence and never silently dropped."""
    model = None
    # (the path's full assumptions first; if the solver does not produce a witness for them quickly - uninterpreted SIN/COS/LOG
    # facts - the declared input preconditions alone: the concrete run then follows whichever path those inputs take)
    # The witness query runs in a z3 context of its own: creating terms / solving in the main context shifts z3's internal term
    # order, and one NRA obligation (C05 softabs dh_dpos) went from unsat in 2 s to unknown after 60 s because of that.
    ctx2 = z3.Context()
    uf_free = [a_ for a_ in assumptions if not _has_uf(a_)]
    # generic position first (no input exactly zero: side conditions such as "the factor matrix has full column rank" were
    # recorded through uninterpreted SQRT terms and are not part of the UF-free hypotheses), then without that preference
    generic = [v != 0 for v in mk.names.values()]
    # inputs of magnitude <= 2 first: the concrete oracles of the problems (finite-difference Jacobians, observed convergence orders,
    # fixed-point iterations) are meaningful only for reasonably scaled inputs; <= 8 as a fallback
    for hyps, tmo, lim in ((assumptions + generic, 2000, 2), (uf_free + generic, 2000, 2), (uf_free + generic, 1500, 8), (uf_free, 1500, 8)):
        s = z3.Solver(ctx=ctx2)
        s.set("timeout", tmo)
        for a_ in hyps + mk.bounds(lim=lim):
            s.add(a_.translate(ctx2))
        if str(s.check()) == "sat":
            model = s.model()
            break
    if model is None:
        return
    try:
        shim = _Shim()
        shim.names = {n: v.translate(ctx2) for n, v in mk.names.items()}
        shim.ufs = {n: f.translate(ctx2) for n, f in (getattr(mk, "ufs", None) or {}).items()}
        vals = SymMk.values(shim, model)
    except Exception:  # noqa: BLE001
        return
    saved = Ctx.cur
    Ctx.cur = None
    try:
        with np.errstate(all="ignore"):
            citems = prob(ConcMk(vals), **kwargs)
    except Skip:
        return
    except Exception as e:  # noqa: BLE001
        if type(e).__module__.startswith("mici.errors"):
            # the library's own loud failure at this (unconstrained in size) witness, e.g. a fixed-point iteration that does not
            # converge for a finite step at extreme parameter values: the point is outside the concrete run's domain - no trace
            rec.note(f"{tag}: validation witness rejected by the library itself ({type(e).__name__})")
            return
        rec.validation_mismatches.append(f"{tag}: concrete run raised {type(e).__name__}: {str(e)[:120]}")
        return
    finally:
        Ctx.cur = saved
    bad_labels = []
    for it in citems:
        if it.kind in ("eq", "logabs"):
            try:
                if not np.all(np.isfinite(np.asarray(it.ref, dtype=float))):
                    return  # the witness lies outside the domain of the reference formula (a dropped side condition): no trace
            except (TypeError, ValueError):
                pass
        try:
            if it.kind == "eq":
                bad, why = differs(it.code, it.ref, rtol=1e-5)
            elif it.kind == "logabs":
                code = float(np.asarray(it.code, dtype=float))
                ref = float(np.asarray(it.ref, dtype=float))
                bad, why = differs(code, math.log(ref) if ref > 0 else float("nan"), rtol=1e-5)
            else:
                bad, why = (not bool(it.code)), "predicate false"
        except Exception as e:  # noqa: BLE001
            bad, why = True, f"{type(e).__name__}: {e}"
        if bad:
            bad_labels.append(f"{it.label}: {why}"[:200])
    if bad_labels:
        rec.validation_mismatches.append(f"{tag}: {bad_labels[:3]} at {str(vals)[:300]}")
    else:
        rec.validated += 1


def _signature(it):
    """Identity of an item's terms (z3 ASTs are hash-consed, so re-executed paths rebuild identical ids)."""
    if it.kind != "eq":
        return None
    try:
        ca, ra = np.asarray(it.code, dtype=object), np.asarray(it.ref, dtype=object)
        def ident(x):
            x = _plain(x)
            return ("ast", x.e.get_id()) if isinstance(x, SV) else ("num", repr(x))
        return (it.label, tuple(ident(x) for x in ca.ravel()), tuple(ident(y) for y in ra.ravel()))
    except Exception:  # noqa: BLE001
        return None


def _discharge(rec, it, assumptions, mk, kwargs, key_prefix, timeout_ms, robust, per_entry_fallback):
    key = it.key or f"{key_prefix}{it.label}"
    extra = []
    pairs = None
    all_zero = False
    if it.kind in ("eq", "logabs"):
        if it.kind == "eq":
            ca, ra = np.asarray(it.code, dtype=object), np.asarray(it.ref, dtype=object)
            if ca.shape != ra.shape:
                try:
                    ca, ra = np.broadcast_arrays(ca, ra)
                except ValueError:
                    rec.candidate(key=key + "/shape", label=f"{it.label}: shape {ca.shape} vs reference {ra.shape}",
                                  payload={"kwargs": kwargs, "values": {}, "label": it.label})
                    return
            pairs = []
            for x, y in zip(ca.ravel(), ra.ravel()):
                if isinstance(x, SB) or isinstance(y, SB):
                    raise TypeError("SB in eq item")
                ex, ey = SV.lift(_plain(x)).e, SV.lift(_plain(y)).e
                if ex.eq(ey):
                    continue
                pairs.append((ex, ey))
            if not pairs:
                # both sides are the identical term (hash-consed AST): discharged without a solver call
                rec.obligations.append({"label": it.label, "verdict": "unsat", "time_s": 0.0, "syntactic": True, "identical_terms": True})
                return
        else:
            try:
                lhs, rhs, extra = log_equals_log_of(it.code, it.ref)
            except ValueError as e:
                rec.errors.append(f"{it.label}: cannot exponentiate log expression: {e}")
                return
            # all factors are non-negative: compare squares so |x| atoms reduce to x^2
            pairs = [(lhs * lhs, rhs * rhs)]
        negs, all_zero = _normalised_negations(rec, pairs, assumptions + extra)
    elif it.kind == "true":
        e = it.code.e if isinstance(it.code, SB) else (z3.BoolVal(bool(it.code)) if not z3.is_expr(it.code) else it.code)
        negs = [z3.Not(e)]
    else:
        raise ValueError(it.kind)
    ass = assumptions + extra
    goal = z3.Or(*negs) if len(negs) > 1 else negs[0]

    def payload(m):
        return {"kwargs": kwargs, "values": mk.values(m), "label": it.label}

    v = rec.obligation(it.label, ass, goal, key=key, replay=payload, timeout_ms=timeout_ms if all_zero or it.kind == "true"
                       else min(timeout_ms, 30000), syntactic=all_zero, seed_names=mk.names, seed_from=mk.assume)
    if v.status == "unknown" and per_entry_fallback and len(negs) > 1:
        # retry entry by entry (smaller queries); the grouped 'unknown' record is replaced
        rec.obligations.pop()
        for i, ng in enumerate(negs):
            rec.obligation(f"{it.label}[{i}]", ass, ng, key=key, replay=payload, timeout_ms=timeout_ms)
    elif v.status == "sat" and robust and pairs is not None and it.kind == "eq":
        # look for a better conditioned witness for the replay: bounded inputs, discrepancy >= 1/100
        margin = z3.Or(*[z3.Or(a - b >= rv(Fraction(1, 100)), b - a >= rv(Fraction(1, 100))) for a, b in pairs])
        s = z3.Solver()
        s.set("timeout", 15000)
        for a_ in ass + mk.bounds():
            s.add(a_)
        s.add(margin)
        if str(s.check()) == "sat":
            rec.candidates[-1]["payload"] = payload(s.model())
            rec.candidates[-1]["robust_witness"] = True


_RNG = __import__("random").Random(12345)


def _normalised_negations(rec, pairs, assumptions):
    """code != ref per entry, with both sides brought to the normal form N != 0 (symx.canon)."""
    from .canon import Canon, selfcheck

    cn = Canon()
    try:
        cn.learn_rules(assumptions)
    except Exception:  # noqa: BLE001
        pass
    negs = []
    all_zero = True
    for ex, ey in pairs:
        try:
            N, d1, d2 = cn.difference_numerator(ex, ey)
        except (ValueError, ZeroDivisionError, RecursionError):
            rec.data_canon_fallback = getattr(rec, "data_canon_fallback", 0) + 1
            negs.append(ex != ey)
            all_zero = False
            continue
        sc = selfcheck(cn, ex, cn.rf(ex), _RNG, tries=1) if not cn.rules else None
        if sc is False:
            raise RuntimeError("canonicaliser self-check failed (normal form disagrees with the z3 term)")
        if sc:
            rec.canon_selfchecks = getattr(rec, "canon_selfchecks", 0) + 1
        if DEBUG and not N.is_zero():
            print(f"[canon] N has {N.nterms()} terms, atoms: {[str(cn.atom_terms[a])[:60] for a in sorted(N.atoms())][:12]}", flush=True)
        if not N.is_zero():
            all_zero = False
        negs.append(cn.poly_to_z3(N) != 0)
    return negs, all_zero


def _plain(x):
    if isinstance(x, (np.generic,)):
        return x.item()
    return x


# ---------------------------------------------------------------- concrete replay
def replay_problem(prob, cand, rtol=1e-6):
    """Re-run the problem on floats taken from the model, on the real unstubbed code."""
    p = cand["payload"] or {}
    mk = ConcMk(p.get("values", {}))
    want = p.get("label")
    crash = p.get("crash")
    try:
        with np.errstate(all="ignore"):
            items = prob(mk, **p.get("kwargs", {}))
    except Skip as e:
        return {"reproduced": False, "detail": f"configuration skipped in replay: {e}"}
    except Exception as e:  # noqa: BLE001
        if crash and type(e).__name__ == crash:
            return {"reproduced": True, "detail": f"real code raises {type(e).__name__}: {e} on values {p.get('values')}"}
        return {"reproduced": bool(crash is None and False), "detail": f"replay raised {type(e).__name__}: {e}\n{traceback.format_exc()[-1200:]}"}
    if crash:
        return {"reproduced": False, "detail": "no exception in concrete replay"}
    for it in items:
        if it.label != want:
            continue
        if it.kind == "eq":
            bad, why = differs(it.code, it.ref, rtol=rtol)
        elif it.kind == "logabs":
            code = float(np.asarray(it.code, dtype=float))
            ref = float(np.asarray(it.ref, dtype=float))
            bad, why = differs(code, math.log(ref) if ref > 0 else float("nan"), rtol=rtol)
        else:
            bad, why = (not bool(it.code)), f"predicate evaluates to {bool(it.code)}"
        return {"reproduced": bool(bad), "detail": f"{it.label}: {why}; inputs {p.get('values')}"}
    return {"reproduced": False, "detail": f"label {want!r} not produced by the concrete run"}
