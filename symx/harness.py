"""Harness-side API: Case / Canary descriptors and the Recorder handed to every case."""
from __future__ import annotations

import inspect
import time
import traceback

import z3

from . import core
from .core import refute, satisfiable, model_to_dict


class Case:
    def __init__(self, name, func, kwargs=None, timeout_s=300, tiers=("quick", "thorough"), group=None):
        self.name = name
        self.func = func
        self.kwargs = kwargs or {}
        self.timeout_s = timeout_s
        self.tiers = tiers
        self.group = group or name.split("/")[0]


class Canary:
    """In-memory source mutation of a mici module; the listed cases must refute it."""

    def __init__(self, name, module, old, new, cases, tiers=("quick", "thorough"), count=1):
        self.name = name
        self.module = module  # e.g. "mici.integrators"
        self.old = old
        self.new = new
        self.cases = cases  # list of case names to run under the mutation
        self.tiers = tiers
        self.count = count


class Recorder:
    def __init__(self, case_name, tier):
        self.case = case_name
        self.tier = tier
        self.obligations = []
        self.candidates = []
        self.paths = 0
        self.decisions = 0
        self.reach = []
        self.samples = []
        self.notes = []
        self.functions = set()
        self.assumptions = set()
        self.errors = []
        self.t0 = time.time()
        self.default_timeout_ms = 60000
        self.fail_fast = False  # canary runs stop at the first candidate
        self.validated = 0  # symbolic paths whose model was re-run on the unstubbed real code with floats, all obligations holding
        self.validation_mismatches = []

    # ---- bookkeeping
    def encoded(self, *objs):
        """Record real functions/classes executed symbolically (qualified name + source lines)."""
        for o in objs:
            try:
                f = inspect.unwrap(o) if callable(o) else o
                if isinstance(f, property):
                    f = f.fget
                lines, start = inspect.getsourcelines(f)
                mod = inspect.getmodule(f).__name__
                self.functions.add(f"{mod}.{f.__qualname__}:{start}-{start + len(lines) - 1}")
            except Exception:
                self.functions.add(getattr(o, "__qualname__", repr(o)))

    def assume(self, text):
        self.assumptions.add(text)

    def note(self, text):
        self.notes.append(text)

    def path(self, ctx=None):
        self.paths += 1
        if ctx is not None:
            self.decisions += len(ctx.trace)

    def sample(self, obj):
        if len(self.samples) < 3:
            self.samples.append(obj)

    # ---- solver
    def reachable(self, label, assumptions, timeout_ms=20000, names=None, seed_from=None):
        """Reachability twin: the obligation ``False`` must come back sat.

        When the plain query is too hard (non-linear definitional side conditions), concrete values for
        the inputs are taken from a model of the *input-level* constraints ``seed_from`` (preconditions
        and path condition) and fixed, leaving only defined symbols (square roots ...) to the solver."""
        r = satisfiable(assumptions, 2000 if names else timeout_ms)
        if r == "unknown" and names:
            block = []
            for attempt in range(2):
                s = z3.Solver()
                s.set("timeout", 4000)
                for a in (seed_from if seed_from is not None else assumptions):
                    s.add(a)
                for b in block:
                    s.add(b)
                # keep seeds well inside the domain
                for v in names.values():
                    s.add(v >= -6, v <= 6)
                if str(s.check()) != "sat":
                    break
                m = s.model()
                fix = [v == m.eval(v, model_completion=True) for v in names.values()]
                r2 = satisfiable(list(assumptions) + fix, 8000)
                if r2 == "sat":
                    r = "sat"
                    break
                block.append(z3.Not(z3.And(*fix)))
        self.reach.append({"label": label, "verdict": r})
        return r

    def obligation(self, label, assumptions, negated_goal, key=None, replay=None, timeout_ms=None,
                   describe=None, twin=False, syntactic=False, seed_names=None, seed_from=None):
        """Discharge one obligation: assumptions /\\ negated_goal must be unsat.

        ``replay``: callable model -> JSON-able payload for the concrete replay.
        ``key``: stable identifier of *what* fails (used to match known findings).
        """
        timeout_ms = timeout_ms or self.default_timeout_ms
        if isinstance(negated_goal, bool):
            negated_goal = z3.BoolVal(negated_goal)
        want_smt = len(self.samples) < 2
        v = refute(label, assumptions, negated_goal, timeout_ms=timeout_ms, want_smt=want_smt)
        if v.status == "unknown" and seed_names:
            # model search with the inputs fixed to concrete rationals (a sat answer is a genuine model of the full query)
            v2 = self._seeded(label, assumptions, negated_goal, seed_names, seed_from)
            if v2 is not None:
                v = v2
        rec = {"label": label, "verdict": v.status, "time_s": round(v.dt, 4)}
        if syntactic:
            rec["syntactic"] = True  # normal form of code - ref is the zero polynomial: independent of the assumptions
        if want_smt and v.smt and v.status == "unsat":
            self.samples.append({"obligation": label, "verdict": v.status, "smtlib": v.smt})
        if twin:
            rec["twin"] = self.reachable(label, assumptions)
        self.obligations.append(rec)
        if v.status == "sat":
            payload = None
            err = None
            if replay is not None:
                try:
                    payload = replay(v.model)
                except Exception as e:  # noqa: BLE001
                    err = f"replay payload failed: {e!r}\n{traceback.format_exc()}"
            cand = {
                "case": self.case,
                "label": label,
                "key": key or f"{self.case}/{label}",
                "model": _trim(model_to_dict(v.model)),
                "payload": payload,
                "describe": describe(v.model) if describe else None,
            }
            if err:
                cand["payload_error"] = err
            self.candidates.append(cand)
            if self.fail_fast:
                raise StopCase()
        return v

    def _seeded(self, label, assumptions, negated_goal, names, seed_from, tries=6):
        from .core import Verdict
        block = []
        t0 = time.time()
        for attempt in range(tries):
            s = z3.Solver()
            s.set("timeout", 4000)
            for a in (seed_from if seed_from is not None else []):
                s.add(a)
            for b in block:
                s.add(b)
            for v in names.values():
                s.add(v >= -4, v <= 4)
            if str(s.check()) != "sat":
                return None
            m = s.model()
            fix = [v == m.eval(v, model_completion=True) for v in names.values()]
            s2 = z3.Solver()
            s2.set("timeout", 6000)
            for a in assumptions:
                s2.add(a)
            s2.add(negated_goal)
            for f in fix:
                s2.add(f)
            r = str(s2.check())
            if r == "sat":
                core.STATS.note("sat", time.time() - t0)
                return Verdict(label, "sat", time.time() - t0, s2.model())
            block.append(z3.Not(z3.And(*fix)))
        return None

    def candidate(self, key, label, payload=None, describe=None):
        """A violation candidate found without a solver model (e.g. an exception escaping mici)."""
        self.candidates.append({"case": self.case, "label": label, "key": key, "model": None,
                                "payload": payload, "describe": describe})
        if self.fail_fast:
            raise StopCase()

    def result(self):
        return {
            "case": self.case,
            "obligations": self.obligations,
            "candidates": self.candidates,
            "paths": self.paths,
            "decisions": self.decisions,
            "reach": self.reach,
            "samples": self.samples,
            "notes": self.notes,
            "functions": sorted(self.functions),
            "assumptions": sorted(self.assumptions),
            "errors": self.errors,
            "validated": self.validated,
            "validation_mismatches": self.validation_mismatches[:10],
            "wall_s": round(time.time() - self.t0, 3),
            "solver": {
                "queries": core.STATS.queries,
                "verdicts": core.STATS.verdicts,
                "solver_s": round(core.STATS.solver_s, 3),
                "feasibility_queries": core.STATS.feas_queries,
                "feasibility_s": round(core.STATS.feas_s, 3),
            },
        }


class StopCase(BaseException):
    pass


def _trim(d, n=40):
    out = {}
    for i, (k, v) in enumerate(sorted(d.items())):
        if i >= n:
            out["..."] = f"{len(d) - n} more"
            break
        out[k] = v if len(v) < 300 else v[:300] + "..."
    return out
