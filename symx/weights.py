"""Positive-weight domain for C01/C12: trajectory weights w_k = exp(-H_k) are strictly positive symbols;
values are rational functions N/D over them (symx.canon Poly/RF).  ``Lin`` is a plain value, ``Log`` the
logarithm of a positive value, so that -h, h1-h2, exp, log1p(exp) are closed.  Comparisons are decided
*syntactically* when the cross-multiplied difference has one-signed coefficients and become a polynomial
atom (forked by the explorer, recorded in the path) otherwise.  No solver call during exploration.
"""
from __future__ import annotations

import math
from fractions import Fraction

import numpy as np

from .canon import Poly, RF


class WAbort(BaseException):
    pass


class WCtx:
    cur = None

    def __init__(self, prefix):
        self.prefix = prefix
        self.trace = []
        self.atoms = {}  # ("pos", poly key) / ("T", lo, hi) / ... -> bool
        self.prob = RF(Poly.const(1))
        self.data = {}

    def decide(self, n):
        i = len(self.trace)
        k = self.prefix[i] if i < len(self.prefix) else 0
        self.trace.append((k, n))
        return k

    def atom(self, key):
        if key in self.atoms:
            return self.atoms[key]
        v = self.decide(2) == 0
        self.atoms[key] = v
        return v


def wexplore(fn, max_paths=2000000):
    prefix = []
    n = 0
    while True:
        ctx = WCtx(prefix)
        WCtx.cur = ctx
        try:
            res = fn(ctx)
            ok = True
        except WAbort:
            ok = False
        finally:
            WCtx.cur = None
        if ok:
            n += 1
            if n > max_paths:
                raise RuntimeError("path budget exceeded")
            yield res, ctx
        tr = ctx.trace
        while tr and tr[-1][0] + 1 >= tr[-1][1]:
            tr.pop()
        if not tr:
            return
        prefix = [k for k, _ in tr[:-1]] + [tr[-1][0] + 1]


def sign_syntactic(p):
    if not p.t:
        return 0
    if all(v > 0 for v in p.t.values()):
        return 1
    if all(v < 0 for v in p.t.values()):
        return -1
    return None


def poly_pos(p):
    """Truth of p > 0 for positive variables; undecided -> polynomial atom (the measure-zero tie p == 0 is
    attributed to the 'not greater' side, consistently for p and -p)."""
    s = sign_syntactic(p)
    if s is not None:
        return s > 0
    ctx = WCtx.cur
    k, nk = p.key(), (-p).key()
    if ("pos", nk) in ctx.atoms:
        return not ctx.atoms[("pos", nk)]
    return ctx.atom(("pos", k))


ONE = RF(Poly.const(1))
ZERO = RF(Poly())


def tofrac(x):
    if isinstance(x, Lin):
        return x.f
    if isinstance(x, (bool, np.bool_)):
        return RF(Poly.const(int(x)))
    if isinstance(x, (int, float, np.integer, np.floating)):
        return RF(Poly.const(Fraction(x)))
    if hasattr(x, "log_val") and isinstance(getattr(x, "log_val"), Log):
        return x.log_val.f  # LogRepFloat holding a symbolic log
    raise TypeError(type(x))


def cmp_poly(a, b):
    """polynomial with the sign of a - b (denominators are positive)."""
    return a.n * b.d - b.n * a.d


class Lin:
    def __init__(self, f):
        self.f = f

    def __add__(s, o):
        return Lin(s.f + tofrac(o))

    __radd__ = __add__

    def __sub__(s, o):
        return Lin(s.f - tofrac(o))

    def __rsub__(s, o):
        return Lin(tofrac(o) - s.f)

    def __mul__(s, o):
        return Lin(s.f * tofrac(o))

    __rmul__ = __mul__

    def __truediv__(s, o):
        return Lin(s.f / tofrac(o))

    def __rtruediv__(s, o):
        return Lin(tofrac(o) / s.f)

    def __neg__(s):
        return Lin(-s.f)

    def __lt__(s, o):
        return poly_pos(cmp_poly(tofrac(o), s.f))

    def __gt__(s, o):
        return poly_pos(cmp_poly(s.f, tofrac(o)))

    def __le__(s, o):
        return not poly_pos(cmp_poly(s.f, tofrac(o)))

    def __ge__(s, o):
        return not poly_pos(cmp_poly(tofrac(o), s.f))

    def __eq__(s, o):
        try:
            return cmp_poly(s.f, tofrac(o)).is_zero()
        except TypeError:
            return NotImplemented

    def __ne__(s, o):
        r = s.__eq__(o)
        return r if r is NotImplemented else not r

    __hash__ = None

    def log(s):
        return Log(s.f)

    def isnan(s):
        return False

    def exp(s):
        raise TypeError("exp of a linear-domain value")

    def __float__(s):
        if s.f.n.is_const() and s.f.d.is_const():
            return float(s.f.n.const_value() / s.f.d.const_value())
        raise TypeError("symbolic weight has no float")

    def __repr__(s):
        return f"Lin({len(s.f.n.t)}/{len(s.f.d.t)} terms)"


class Log:
    """log of the positive value f"""

    def __init__(self, f):
        self.f = f

    def _o(s, o):
        if isinstance(o, Log):
            return o
        if isinstance(o, (int, float)) and o == 0:
            return Log(ONE)
        raise TypeError(f"Log op with {o!r}")

    def __add__(s, o):
        return Log(s.f * s._o(o).f)

    __radd__ = __add__

    def __sub__(s, o):
        return Log(s.f / s._o(o).f)

    def __rsub__(s, o):
        return Log(s._o(o).f / s.f)

    def __neg__(s):
        return Log(RF(s.f.d, s.f.n))

    def __lt__(s, o):
        if isinstance(o, float) and math.isinf(o):
            return o > 0
        return poly_pos(cmp_poly(s._o(o).f, s.f))

    def __gt__(s, o):
        if isinstance(o, float) and math.isinf(o):
            return o < 0
        return poly_pos(cmp_poly(s.f, s._o(o).f))

    def __le__(s, o):
        return not (s > o)

    def __ge__(s, o):
        return not (s < o)

    def __eq__(s, o):
        if isinstance(o, float) and math.isinf(o):
            return False
        if isinstance(o, Log):
            return cmp_poly(s.f, o.f).is_zero()
        return NotImplemented

    def __ne__(s, o):
        r = s.__eq__(o)
        return r if r is NotImplemented else not r

    __hash__ = None

    def exp(s):
        return Lin(s.f)

    def isnan(s):
        return False

    def __repr__(s):
        return "Log(...)"


def wvar(name):
    from .canon import Poly
    return RF(Poly.var(name))


class Coin:
    """rng.uniform() < p : forks with exact probability p / 1-p."""

    def __init__(self, p):
        self.p = tofrac(p)

    def __bool__(self):
        ctx = WCtx.cur
        one_minus = ONE - self.p
        if one_minus.n.is_zero():
            return True
        if self.p.n.is_zero():
            return False
        r = ctx.decide(2) == 0
        ctx.prob = ctx.prob * (self.p if r else one_minus)
        return r

    def __rmul__(s, o):
        return o * bool(s)

    def __mul__(s, o):
        return bool(s) * o


class Uniform:
    def __lt__(s, p):
        return Coin(p)


def rf_to_z3(r, V):
    """z3 real term of an RF with variables named in V (dict name -> z3 var)."""
    import z3

    def poly(p):
        if not p.t:
            return z3.RealVal(0)
        ts = []
        for mono, c in p.t.items():
            fs = [z3.RealVal(str(c))] if (c != 1 or not mono) else []
            for a, e in mono:
                fs += [V[a]] * e
            ts.append(fs[0] if len(fs) == 1 else z3.Product(*fs))
        return ts[0] if len(ts) == 1 else z3.Sum(*ts)
    return poly(r.n), poly(r.d)


def poly_from_key(key):
    return Poly(dict(key))
